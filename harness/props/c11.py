"""C11 — ragged Vector keeps its structural invariants under any operation history.

Two things happen for every generated operation sequence:

* correspondence: the real `quantem.core.datastructures.vector.Vector` and the heap-based state
  machine `Model/Vector.lean` (through Driver/C11.lean) execute the same operations; after EVERY
  step the full observable state is compared: shape, fields, units, every cell (None | ncols, exact
  values), `v[f].flatten()` of every field, `v.flatten()`, metadata dicts, outcome / error kind, and
  the alias fingerprint (which cells / pool arrays / metadata dicts are the same object — a
  persistent bijection between model heap references and Python object identities);
* property predicate on the real code alone (pure-Python list-of-lists / object-array oracle, no
  Lean involved): structure, flatten = row-major concatenation and write-back, addressed-cell
  semantics of retrieval and assignment for 1..3 fixed dimensions, copy / independent-creation
  freshness, frame (an operation on X changes only arrays that sit in X).

All values are quarter-integers with a bounded power-of-two scale, so float arithmetic is exact
and every comparison is equality.
"""
import contextlib
import io
import itertools
import json
import os
from fractions import Fraction

import numpy as np

from . import c11_fixed

LEVEL = "proof"
EXTRA_PROPS = ["QuantemModel.Props.C11Ext"]   # growth 6: rejected calls leave no trace / histories drop rejected calls / last writer wins
MANIFEST_ENTRY = {
    "category": "proof",
    "text": "Lean 4 theorems over an executable heap-based state machine of vector.py + validate_vector_* (cells hold "
            "references: aliasing between cells, vectors and the caller is modelled; arrays carry exact rational values "
            "and a dtype kind int64/float64 with NumPy's assignment cast = truncation toward zero; loops that raise "
            "half-way keep their partial effect). (1) invariant_step / invariant_all_histories / structure_all_histories: "
            "after ANY op list every vector has unique fields, one unit per field, one cell per index of a positive "
            "shape, every populated cell refers to a live rectangular 2-D array with exactly one column per field, and "
            "int64 arrays hold integers. (2) flatten_spec, writeback_identity(+_all_histories), fieldOp_state, "
            "flatten_after_setFlattened(+_float): flatten after set_flattened returns what was written (cast per cell "
            "dtype). (3) frame_fieldOp / frame_setFlattened. (4) copy_fresh, fromShape_fresh, copy_independent, "
            "add_remove_fields. (5) slice_spec / getData_spec for any number of fixed dimensions. (6) value laws: "
            "assign_spec (k-th array of the list sits, by reference, in the k-th addressed cell; everything else "
            "untouched), fieldOp_values / fieldOp_columnwise (column j becomes f of its entries cast to the dtype, all "
            "other columns, shape, dtype identical), fieldOp_on_slice (arithmetic through v[idx] touches exactly the "
            "addressed cells), fieldOpGen_values (ndarray / scalar operand with broadcasting), add_fields_values, "
            "remove_fields_values (other columns keep their values; kept columns = names not removed). (7) the "
            "property setters are outside the statement's operation list: units_setter_preserves_invariant, "
            "fields_setter_rename_preserves_invariant, fields_setter_counterexample, shape_setter_counterexample. (8) objects "
            "the caller keeps across later operations (Model/VectorView.lean: held _FieldView objects, kept flatten() results, "
            "the caller's in-place edits of them): shapes_stable_step / shapes_stable_all_histories (no operation, raising or "
            "not, changes rows / columns / dtype kind of an existing array), restore_after_history and kept_restore (a "
            "flattened field written back after ANY later history that does not re-bind the vector's cells restores exactly "
            "the values it was taken with), held_view_reads_named_column (a view made earlier reads the column its field NAME "
            "has now, after any history), kept_independent, invariant_all_histories_held, stale_view_counterexample (the "
            "code before repair fbb3a1b). (9) growth 6, Props/C11Ext.lean: rejected_no_effect (on every invariant state a call of the "
            "atomic class — creation, retrieval, single-cell assignment, scalar field arithmetic, set_flattened, write-back, "
            "add_fields, remove_fields, copy, data setter, metadata — that raises leaves heap, vectors and metadata exactly as they "
            "were), rejected_then_same, history_drops_rejected / all_histories_drop_rejected (a whole history ends in the state of "
            "the history with every rejected atomic call deleted), lastWriter_spec / assign_lastWriter (fancy assignment with index "
            "lists in ANY order and with repeats: position p finally holds the value of the LAST k with ps[k] = p; end to end from "
            "opSetItem, no distinctness hypothesis), and the argument forms of from_shape (Model/VectorFront.lean: tuple / int / bool "
            "/ int-like tests of validate_shape, validate_fields, validate_num_fields, validate_vector_units): front_refines_core, "
            "front_preserves_invariant, front_rejected_no_effect, first_bad_dim_wins, checkDims_pos. The "
            "model is tied to the code on every run by a step-by-step differential run of random op histories (full "
            "state compared exactly after every step: values, dtype kinds, object identity), and an independent "
            "pure-Python exact-rational reference evaluates the property on the real class (failing-input search).",
    "note": "Measured only (correspondence + oracle, no theorem): field arithmetic whose operand is another field view; "
            "the partial effect of a RAISING list-valued fancy assignment / array-operand field arithmetic (outside the atomic "
            "class of rejected_no_effect; invariant_step covers them); that Vector.flatten() (2-D) hands out storage "
            "of its own (tie only: the property does not speak about it); public signatures / defaults (pinned table). "
            "Trusted: Lean kernel + propext/Classical.choice/Quot.sound; hand model validated by sampled correspondence "
            "only; NumPy semantics (hstack promotion, fancy column selection, deepcopy memo, in-place column assignment "
            "and its cast, broadcasting of 1-D operands, sequential indexing into a cell array) modelled not verified; "
            "dtypes other than int64/float64, 2-D operands, and slice/list surplus indices of a single-cell assignment "
            "into a populated cell are outside the model. The `fields`/`shape` setters can break the invariant "
            "(counterexample theorems) but are not operations the property lists: reported, not repaired.",
    "technique": "Lean 4 proof (invariant induction over op lists on a heap model; relational specs for deepcopy / "
                 "column rebuild / assignment loops; row-major bijection lemma for N-D addressing) + model-vs-"
                 "implementation correspondence with alias fingerprints + exact reference-model predicate",
}
RULE = ("184 fixed argument-form cases of from_shape (one case = one call; distinct = distinct request); 20 FIXED op histories "
        "(c11_fixed.py, independent of VERIF_SEED: 3-D / 4-D copy + in-place ops on either side, unsorted / descending / repeating "
        "index lists and negative-step slices on every fixed dimension, last index / index == length / negative indices, exactly one "
        "populated cell with kept flatten() results, 11-14 fields, axis lengths 11 / 13, cells of 130 / 260 rows, zero-row cells, "
        "rejected calls between valid ones, two vectors of one schema alive); then "
        "random op sequences on a world of several vectors sharing arrays, with field views and flattened arrays the caller "
        "keeps and uses again later; a case is one op applied to a state; "
        "distinct non-trivial = distinct (op kind, outcome, #fixed dims of target, index kinds used, value kind, "
        "whether the target holds an array that also sits elsewhere) with at least one populated cell in the world")
TRUSTED = ["NumPy array semantics used by vector.py (np.hstack, arr[:, idx], arr[:, j] = x, copy.deepcopy memo, np.concatenate / "
           "np.vstack return storage of their own)",
           "float64 arithmetic is exact on the generated quarter-integer values (scale bounded by construction)"]
ASSUMPTIONS = [
    "argument forms of from_shape (stream vector-front): shape as tuple / list / int / None / ndarray with dimensions int, bool, "
    "float, np.int64, str, None; num_fields as int, bool, 2.0, np.int64, str; fields / units as list, tuple, str, set, dict. Only the "
    "exception TYPE and, on success, shape / fields / units / number of unset cells are compared. from_data is driven with a list and "
    "int num_fields only (its `data is not a list` TypeError and non-int num_fields are not modelled); the direct constructor "
    "(RuntimeError without the class token), __repr__ / __str__ and the `return np.arange(dim_size)` fall-through of get_indices "
    "(None / Ellipsis / float as index: outside the declared index types) are not part of the tie",
    "held objects: a field view made earlier is used again after later operations (flatten, arithmetic, set_flattened, "
    "indexing); a kept flatten() result must stay bit-identical under every later operation and is written back later "
    "(the oracle writes the values it had when it was handed out); when the view's field has been removed nothing is claimed "
    "(the model follows the code: KeyError once a populated cell is visited). A caller-side edit of a kept array must leave "
    "every vector unchanged. For Vector.flatten() (2-D) only the tie is checked, no predicate",
    "arrays handed to the class are drawn over memory layouts with the same logical value (C / Fortran order, every second "
    "row / column of a private base, negative strides); overlapping views of one base held in two places are NOT generated "
    "(NumPy would alias them by memory, the heap model aliases by object identity only)",
    "copy / from_shape / from_data must not share their fields / units LIST objects with another vector, also when the caller "
    "passes the same list objects to two creation calls; slices (v[idx]) are neither copies nor independently created: no "
    "claim about their schema lists",
    "every int / list index of every operation is drawn over spellings that denote the same index (Python int, np.int64, "
    "np.int32, np.uint8/int16, lists of NumPy ints, int64/int32/uint8 ndarrays, tuple, range) while the model sees the "
    "plain int / list, so result, error kind and state must equal the plain form; bool (0/1) and 0-d integer arrays are "
    "drawn only on the paths where the code consumes them as Python list indices (all-int __getitem__ / single-cell "
    "__setitem__): elsewhere the code rejects them with TypeError, which is not modelled and not claimed",
    "the property setters shape/fields/units are not among the operations the statement lists: they are modelled outside "
    "the op alphabet (Props: fields_setter_counterexample, shape_setter_counterexample) and only tied to the code by a "
    "small correspondence stream that ends a sequence; no predicate is evaluated on them",
    "cell dtypes are int64 or float64 (other dtypes — bool, complex, object, float32 — are not generated or modelled)",
    "field arithmetic operands: Python int/float scalars, 1-D float64 ndarrays, other field views; `**` only with the "
    "exponents NumPy evaluates exactly (2, 1, 0, -1; 3 and negative ints on all-int64 cells; exponent arrays of 0/1/2): "
    "candidates whose exact result (or an intermediate read again through an alias) is not float64/int64-representable, "
    "or that divide by zero, are rejected by an exact simulation and counted in the distribution",
    "index tuples longer than the number of fixed dimensions are modelled (they index into the cell array); the one "
    "exception is a slice/list as surplus index of a single-cell ASSIGNMENT into a populated cell (NumPy view-vs-copy "
    "semantics): the model answers Unsupported and it is never generated",
    "a 2-D (or higher) ndarray operand of field arithmetic and empty index lists given as integer ndarrays in surplus "
    "positions are not generated",
    "after an operation that raises, the real object may be partially assigned (fancy assignment loops); the model "
    "reproduces the partial assignment and the comparison continues",
]
EXPLANATION = ("Theorems in Props/C11.lean are about Model/Vector.lean; each run drives the real Vector class and the "
               "model with identical op sequences and compares the full state (values exactly, aliasing by identity) "
               "after every step; the property itself is evaluated on the real class by a pure-Python oracle.")

ERRS = {"TypeError", "KeyError", "ValueError", "IndexError"}
NAMES = ["x", "y", "z", "w", "a", "b", "q", "field_0", "field_1", "field_2", "field_3"]
UNITS = ["m", "s", "px", "none", "A"]


def err_name(e):
    n = type(e).__name__
    return n if n in ERRS else "Other:" + n


def fstr(x):
    x = Fraction(x)
    return str(x.numerator) if x.denominator == 1 else f"{x.numerator}/{x.denominator}"


def qstr(x):
    """exact rational text of a float ('n' or 'n/d', lowest terms) — same format as the Lean driver"""
    n, d = float(x).as_integer_ratio()
    return str(n) if d == 1 else f"{n}/{d}"


def rows_of(a):
    return [[qstr(x) for x in row] for row in a.tolist()]


LAYOUTS = ["C", "F", "rows2", "cols2", "rev", "revcols"]


def mk_array(ncols, rows, is_int=False, layout="C"):
    """the caller's ndarray; `layout` picks a memory layout with the SAME logical value (C / Fortran order, every
    second row or column of a private base array, negative strides): the base is held by nobody else, so the
    array behaves like any other 2-D array of that shape and dtype"""
    dt = np.int64 if is_int else float
    a = np.zeros((len(rows), ncols), dtype=dt)
    for i, r in enumerate(rows):
        for j, s in enumerate(r):
            a[i, j] = int(Fraction(s)) if is_int else float(Fraction(s))
    n = len(rows)
    if layout == "F":
        a = np.asfortranarray(a)
    elif layout == "rows2":
        base = np.full((2 * n + 1, ncols), 77, dtype=dt)
        base[0:2 * n:2] = a
        a = base[0:2 * n:2]
    elif layout == "cols2":
        base = np.full((n, 2 * ncols + 1), 77, dtype=dt)
        base[:, 0:2 * ncols:2] = a
        a = base[:, 0:2 * ncols:2]
    elif layout == "rev":
        a = a[::-1].copy()[::-1]
    elif layout == "revcols":
        a = a[:, ::-1].copy()[:, ::-1]
    assert a.shape == (n, ncols)
    return a


def np_json(r):
    """a NumPy value that is not a cell (result of indexing INTO a cell array)"""
    if isinstance(r, np.ndarray) and r.ndim == 2:
        return {"a2": rows_of(r), "ncols": int(r.shape[1]), "int": r.dtype.kind == "i"}
    if isinstance(r, np.ndarray) and r.ndim == 1:
        return {"a1": [qstr(x) for x in r.tolist()], "int": r.dtype.kind == "i"}
    if isinstance(r, np.generic):
        return {"sc": qstr(r.item()), "int": r.dtype.kind == "i"}
    return {"other": type(r).__name__}


def tr(x):
    """C cast float → int64 of a finite value: truncation toward zero"""
    return Fraction(int(x))


BIN = {"add": lambda x, y: x + y, "sub": lambda x, y: x - y, "mul": lambda x, y: x * y, "div": lambda x, y: x / y,
       "floordiv": lambda x, y: Fraction((x / y).__floor__()), "mod": lambda x, y: x - y * (x / y).__floor__(),
       "pow": lambda x, y: _pow(x, y)}


class Inexact(Exception):
    pass


def _pow(x, y):
    if y.denominator != 1:
        raise Inexact()
    return x ** int(y)


def mats_of(arrays):
    """id → [matrix of Fractions, is_int] for a dict id → (obj, copy) or an iterable of arrays"""
    out = {}
    items = arrays.items() if isinstance(arrays, dict) else ((id(a), (a, a)) for a in arrays)
    for i, (_, old) in items:
        if isinstance(old, np.ndarray) and old.ndim == 2:
            out[i] = [[[Fraction(x) for x in row] for row in old.tolist()], old.dtype.kind == "i"]
    return out


def bc(n, ys):
    if len(ys) == n:
        return list(ys)
    if len(ys) == 1:
        return [ys[0]] * n
    return None


def representable(x, isint):
    if isint:
        return x.denominator == 1 and abs(x.numerator) < 1 << 40
    d = x.denominator
    return not (d & (d - 1)) and d <= 1 << 24 and abs(x.numerator) < 1 << 44


def sim_field_op(mats, cells, j, k, rhs, neg_int_pow, rhs_cells=None, rhs_j=None, strict=False):
    """pure-Python reference of `v[f] op= rhs` on exact rationals: cells visited in order, arrays written
    through their identity (so an array that sits twice is updated twice); returns the error kind or None"""
    g = BIN[k]
    for c in cells:
        if c is None:
            continue
        M, isint = mats[id(c)]
        n = len(M)
        if neg_int_pow and isint and n:
            return "ValueError"
        if "c" in rhs:
            ys = [Fraction(rhs["c"])] * n
        elif "arr" in rhs:
            ys = bc(n, [Fraction(t) for t in rhs["arr"]])
        else:
            ys = bc(n, [row[rhs_j] for cc in rhs_cells if cc is not None for row in mats[id(cc)][0]])
        if ys is None:
            return "ValueError"
        if strict and k == "pow" and "c" not in rhs and any(y not in (0, 1, 2) for y in ys):
            raise Inexact()          # NumPy's vector pow() is only trusted on the exponents it special-cases
        new = [g(M[i][j], ys[i]) for i in range(n)]
        for i in range(n):
            M[i][j] = tr(new[i]) if isint else new[i]
            if strict and not (representable(M[i][j], isint) and (not isint or abs(new[i].denominator) < 1 << 20)):
                raise Inexact()      # an intermediate value float64 would round (it may be read again through an alias)
    return None


def sim_set_flattened(mats, cells, j, xs):
    cur = 0
    for c in cells:
        if c is None:
            continue
        M, isint = mats[id(c)]
        for i in range(len(M)):
            M[i][j] = tr(xs[cur + i]) if isint else xs[cur + i]
        cur += len(M)


def exact_ok(mats):
    """every value survives float64 / int64 storage exactly (and stays far from any rounding boundary)"""
    for M, isint in mats.values():
        for row in M:
            for x in row:
                if isint:
                    if x.denominator != 1 or abs(x.numerator) >= 1 << 40:
                        return False
                else:
                    d = x.denominator
                    if d & (d - 1) or d > 1 << 24 or abs(x.numerator) >= 1 << 44:
                        return False
    return True


def _vector_cls():
    from quantem.core.datastructures.vector import Vector
    return Vector


class Structural(Exception):
    pass


def flat_cells(v):
    """row-major list of the cell objects, read through the public `data` / `shape`"""
    shape = tuple(v.shape)
    out = []

    def walk(node, dims, path):
        if not dims:
            out.append(node)
            return
        if not isinstance(node, list) or len(node) != dims[0]:
            raise Structural(f"data{path} is not a list of length {dims[0]}: {type(node).__name__}"
                             + (f" of length {len(node)}" if isinstance(node, list) else ""))
        for i, sub in enumerate(node):
            walk(sub, dims[1:], path + f"[{i}]")

    walk(v.data, shape, "")
    return out


class World:
    def __init__(self):
        self.vecs = []
        self.pool = []
        self.views = []      # held _FieldView objects: {"fv", "v", "f"}
        self.kept = []       # kept results of fv.flatten(): {"obj", "copy", "v", "f"}
        self.kept_all = []   # kept results of Vector.flatten(): {"obj", "copy", "v"}
        self.last_lists = None   # the fields / units list objects the caller passed to the last creation call


# ---------------------------------------------------------------------------------------
# executing one op on the real class

INT_FORMS = ["int", "i64", "i32", "u8", "0d", "bool"]
SEQ_FORMS = ["list", "lnp", "a64", "a32", "au8", "tuple", "range"]


def to_index(ix):
    """the Python object for an index; `form` picks one of the spellings that denote the SAME index (the model
    only ever sees the plain int / list): NumPy integer scalars, 0-d integer arrays, bool for 0/1; tuples, ranges,
    integer ndarrays of several widths and lists of NumPy integers for index lists"""
    if "i" in ix:
        k, f = int(ix["i"]), ix.get("form", "int")
        if f == "i64":
            return np.int64(k)
        if f == "i32":
            return np.int32(k)
        if f == "u8":
            return np.uint8(k) if 0 <= k < 256 else np.int16(k)
        if f == "0d":
            return np.array(k)
        if f == "bool" and k in (0, 1):
            return bool(k)
        return k
    if "l" in ix:
        l, f = list(ix["l"]), ix.get("form", "a64" if ix.get("np") else "list")
        if f == "lnp":
            return [np.int64(x) for x in l]
        if f == "a64":
            return np.array(l, dtype=np.int64)
        if f == "a32":
            return np.array(l, dtype=np.int32)
        if f == "au8":
            return np.array(l, dtype=np.uint8 if all(0 <= x < 256 for x in l) else np.int16)
        if f == "tuple" and l:
            return tuple(l)
        if f == "range" and l:
            step = (l[1] - l[0]) if len(l) > 1 else 1
            if step != 0 and all(l[i + 1] - l[i] == step for i in range(len(l) - 1)):
                return range(l[0], l[-1] + (1 if step > 0 else -1), step)
            return l
        return l
    a, b, c = ix["s"]
    return slice(a, b, c)


def decorate_forms(rng, op, nd):
    """draw a spelling for every int / list index of the op (only spellings the code treats like the plain one on the
    respective path: NumPy integer scalars everywhere; bool and 0-d arrays only where Python list indexing / the
    all-int branch consumes them)"""
    idx = op.get("idx")
    if not idx or rng.chance(0.35):
        return op
    k = op["op"]
    first = idx[:nd]
    all_int_full = len(idx) >= nd and all("i" in ix for ix in first)
    for pos, ix in enumerate(idx):
        if "i" in ix:
            forms = [("int", 3), ("i64", 3), ("i32", 2), ("u8", 2)]
            if pos < nd and all_int_full and k in ("getitem", "field_get", "setitem"):
                forms.append(("bool", 1 if ix["i"] in (0, 1) else 0))
                if k == "setitem":
                    forms.append(("0d", 2))
            ix["form"] = rng.weighted(forms)
        elif "l" in ix and ix["l"] and pos < nd:
            # a bare tuple IS the multi-index (v[(0, 1)] = v[0, 1]): only spell a list as tuple inside an index tuple
            bare = bool(op.get("bare")) and len(idx) == 1
            ix["form"] = rng.weighted([("list", 3), ("lnp", 1), ("a64", 2), ("a32", 1), ("au8", 1), ("tuple", 0 if bare else 2), ("range", 2)])
            ix.pop("np", None)
    return op


def to_val(w, j, nf=1):
    if "p" in j:
        return w.pool[j["p"]]
    b = j["bad"]
    if b == "1d":
        return np.zeros(3)
    if b == "3d":
        return np.zeros((2, j.get("d1", 0), 2))
    if b == "list":
        return [[0.0] * max(nf, 1)]
    return None


def to_setval(w, j, nf):
    if "one" in j:
        return to_val(w, j["one"], nf)
    if "many" in j:
        return [to_val(w, x, nf) for x in j["many"]]
    return w.vecs[j["vec"]]


def to_item(w, j):
    if "lit" in j:
        if j["lit"].get("int"):
            return [[int(Fraction(s)) for s in r] for r in j["lit"]["rows"]]
        return [[float(Fraction(s)) for s in r] for r in j["lit"]["rows"]]
    if "lit1d" in j:
        return [1.0, 2.0]
    return to_val(w, j)


def nest(items, lens):
    if len(lens) <= 1:
        return list(items)
    step = 1
    for d in lens[1:]:
        step *= d
    return [nest(items[i * step:(i + 1) * step], lens[1:]) for i in range(lens[0])]


BINNP = {"add": lambda x, c: x + c, "sub": lambda x, c: x - c, "mul": lambda x, c: x * c}

FOPS = {"add": lambda fv, c: fv.__iadd__(c), "sub": lambda fv, c: fv.__isub__(c), "mul": lambda fv, c: fv.__imul__(c),
        "div": lambda fv, c: fv.__itruediv__(c), "floordiv": lambda fv, c: fv.__ifloordiv__(c),
        "mod": lambda fv, c: fv.__imod__(c), "pow": lambda fv, c: fv.__ipow__(c)}


def resolvable(w, op):
    if "v" in op and op["v"] >= len(w.vecs):
        return False
    refs = []

    def scan(j):
        if isinstance(j, dict):
            if "p" in j:
                refs.append(("p", j["p"]))
            if "vec" in j:
                refs.append(("v", j["vec"]))
            for x in j.values():
                scan(x)
        elif isinstance(j, list):
            for x in j:
                scan(x)
    scan(op.get("val"))
    scan(op.get("items"))
    if "w" in (op.get("rhs") or {}):
        refs.append(("v", op["rhs"]["w"]))
    if "w" in op and op["w"] >= len(w.views):
        return False
    if "kept" in op and op["kept"] >= len(w.kept):
        return False
    return all((i < len(w.pool)) if k == "p" else (i < len(w.vecs)) for k, i in refs)


def long_int_index(op, v):
    nd = len(v.shape)
    return len(op["idx"]) > nd and all("i" in ix for ix in op["idx"][:nd])


def apply_real(w, op):
    Vector = _vector_cls()
    k = op["op"]
    try:
        with contextlib.redirect_stdout(io.StringIO()):
            if k == "alloc":
                w.pool.append(mk_array(op["ncols"], op["rows"], op.get("int", False), op.get("layout", "C")))
                return {"ok": {"arr": True}}
            if k in ("from_shape", "from_data"):
                # the caller may pass the very list objects it passed to the previous creation call
                fl, ul = op.get("fields"), op.get("units")
                if op.get("reuse_lists") and w.last_lists is not None:
                    fl = w.last_lists[0] if w.last_lists[0] == fl else fl
                    ul = w.last_lists[1] if w.last_lists[1] == ul else ul
                if op.get("fields_tuple") and fl is not None:
                    fl = tuple(fl)
                w.last_lists = (fl, ul)
            if k == "from_shape":
                v = Vector.from_shape(shape=tuple(op["shape"]), num_fields=op.get("num_fields"), fields=fl, units=ul)
                w.vecs.append(v)
                return {"ok": {"vec": len(w.vecs) - 1}}
            if k == "from_data":
                v = Vector.from_data([to_item(w, it) for it in op["items"]], num_fields=op.get("num_fields"), fields=fl, units=ul)
                w.vecs.append(v)
                return {"ok": {"vec": len(w.vecs) - 1}}
            if k == "nop":
                return {"ok": None}
            if k == "kept_mutate":      # the caller changes, in place, an array that `flatten()` handed out earlier
                F = w.kept[op["kept"]]["obj"]
                c = Fraction(op["c"])
                F[...] = BINNP[op["k"]](F, int(c) if F.dtype.kind == "i" else float(c))
                return {"ok": None}
            if k in ("view_flatten", "view_op", "view_set", "view_restore", "view_get"):
                fv = w.views[op["w"]]["fv"]
                if k == "view_flatten":
                    F = np.asarray(fv) if op.get("via") == "asarray" else fv.flatten()
                    if not isinstance(F, np.ndarray):
                        return {"ok": {"other": type(F).__name__}}
                    w.kept.append({"obj": F, "copy": F.copy(), "v": w.views[op["w"]]["v"], "f": w.views[op["w"]]["f"]})
                    return {"ok": {"np": np_json(F)}}
                if k == "view_op":
                    rhs = op["rhs"]
                    if "c" in rhs:
                        other = int(Fraction(rhs["c"])) if rhs.get("c_int") else float(Fraction(rhs["c"]))
                    elif "arr" in rhs:
                        other = np.array([float(Fraction(t)) for t in rhs["arr"]], dtype=float)
                    else:
                        other = w.vecs[rhs["w"]][rhs["wf"]]
                    FOPS[op["k"]](fv, other)
                    return {"ok": None}
                if k == "view_set":
                    vals = op.get("vals")
                    x = np.array([float(Fraction(t)) for t in vals], dtype=float) if isinstance(vals, list) else np.zeros((2, 2))
                    fv.set_flattened(x)
                    return {"ok": None}
                if k == "view_restore":
                    fv.set_flattened(w.kept[op["kept"]]["obj"])     # the very array that was handed out
                    return {"ok": None}
                idx = tuple(to_index(ix) for ix in op["idx"])
                if len(idx) == 1 and op.get("bare"):
                    idx = idx[0]
                r = fv[idx]
                if type(r).__name__ == "_FieldView":
                    w.vecs.append(r.vector)
                    return {"ok": {"vec": len(w.vecs) - 1}}
                if r is None:
                    return {"ok": {"cell": False}}
                return {"ok": {"np": np_json(r)}}
            v = w.vecs[op["v"]]
            nf = len(v.fields)
            if k == "view_make":
                fv = v[op["f"]]
                w.views.append({"fv": fv, "v": op["v"], "f": op["f"], "j0": list(v.fields).index(op["f"])})
                return {"ok": {"view": len(w.views) - 1}}
            if k == "keep_all":
                A = v.flatten()
                w.kept_all.append({"obj": A, "copy": A.copy(), "v": op["v"]})
                return {"ok": None}
            if k == "get_data":
                r = v.get_data(*[to_index(ix) for ix in op["idx"]])
                if isinstance(r, list):
                    w.pool.extend(x for x in r if x is not None)
                    return {"ok": {"cells": [x is not None for x in r]}}
                if r is not None:
                    w.pool.append(r)
                return {"ok": {"cell": r is not None}}
            if k == "set_data":
                v.set_data(to_setval(w, op["val"], nf), *[to_index(ix) for ix in op["idx"]])
                return {"ok": None}
            if k in ("getitem", "setitem"):
                idx = tuple(to_index(ix) for ix in op["idx"])
                if len(idx) == 1 and op.get("bare"):
                    idx = idx[0]
                if k == "getitem":
                    r = v[idx]
                    if isinstance(r, Vector):
                        w.vecs.append(r)
                        return {"ok": {"vec": len(w.vecs) - 1}}
                    if long_int_index(op, v):
                        return {"ok": {"np": np_json(r)}}       # a row / element / block of the cell array, not a cell
                    if r is not None:
                        w.pool.append(r)
                    return {"ok": {"cell": r is not None}}
                v[idx] = to_setval(w, op["val"], nf)
                return {"ok": None}
            if k == "field_op":
                c = float(Fraction(op["c"]))
                if op.get("via") == "view":
                    FOPS[op["k"]](v[op["f"]], c)       # fv = v[f]; fv += c
                else:                                   # v[f] += c  (→ __getitem__, __iadd__, __setitem__)
                    fv = v[op["f"]]
                    v[op["f"]] = FOPS[op["k"]](fv, c)
                return {"ok": None}
            if k == "field_op_gen":
                rhs = op["rhs"]
                if "c" in rhs:
                    other = int(Fraction(rhs["c"])) if rhs.get("c_int") else float(Fraction(rhs["c"]))
                elif "arr" in rhs:
                    other = np.array([float(Fraction(t)) for t in rhs["arr"]], dtype=float)
                fv = v[op["f"]]
                if "w" in rhs:
                    other = w.vecs[rhs["w"]][rhs["wf"]]
                if op.get("via") == "view":
                    FOPS[op["k"]](fv, other)
                else:
                    v[op["f"]] = FOPS[op["k"]](fv, other)
                return {"ok": None}
            if k == "field_get":
                idx = tuple(to_index(ix) for ix in op["idx"])
                if len(idx) == 1 and op.get("bare"):
                    idx = idx[0]
                r = v[op["f"]][idx]
                if type(r).__name__ == "_FieldView":
                    w.vecs.append(r.vector)
                    return {"ok": {"vec": len(w.vecs) - 1}}
                if r is None:
                    return {"ok": {"cell": False}}
                return {"ok": {"np": np_json(r)}}
            if k == "set_flattened":
                vals = op.get("vals")
                x = np.array([float(Fraction(s)) for s in vals], dtype=float) if isinstance(vals, list) else np.zeros((2, 2))
                if op.get("as_list") and isinstance(vals, list):
                    x = [float(t) for t in x]
                if op.get("via") == "setitem":
                    v[op["f"]] = x
                else:
                    v[op["f"]].set_flattened(x)
                return {"ok": None}
            if k == "writeback":
                fv = v[op["f"]]
                fv.set_flattened(fv.flatten())
                return {"ok": None}
            if k == "add_fields":
                v.add_fields(op["names"][0] if op.get("as_str") and len(op["names"]) == 1 else
                             (tuple(op["names"]) if op.get("as_tuple") else list(op["names"])))
                return {"ok": None}
            if k == "remove_fields":
                v.remove_fields(op["names"][0] if op.get("as_str") and len(op["names"]) == 1 else list(op["names"]))
                return {"ok": None}
            if k == "copy":
                w.vecs.append(v.copy())
                return {"ok": {"vec": len(w.vecs) - 1}}
            if k == "set_data_attr":
                v.data = nest([to_item(w, it) for it in op["items"]], op["lens"])
                return {"ok": None}
            if k == "meta_set":
                v.metadata[op["k"]] = op["x"]
                return {"ok": None}
            raise RuntimeError("unknown op " + k)
    except Exception as e:  # noqa
        return {"err": err_name(e)}


# ---------------------------------------------------------------------------------------
# snapshots and the pure-Python oracle

def snapshot(w):
    arrays = {}
    for a in w.pool:
        if isinstance(a, np.ndarray):
            arrays.setdefault(id(a), (a, a.copy()))
    vs = []
    for v in w.vecs:
        cells = flat_cells(v)
        for c in cells:
            if isinstance(c, np.ndarray):
                arrays.setdefault(id(c), (c, c.copy()))
        vs.append({"cells": cells, "fields": list(v.fields), "units": list(v.units), "shape": tuple(v.shape),
                   "meta": v.metadata, "meta_copy": dict(v.metadata)})
    return {"arrays": arrays, "vecs": vs}


def py_indices(ix, d):
    if "i" in ix:
        return [ix["i"]]
    if "l" in ix:
        return list(ix["l"])
    a, b, c = ix["s"]
    return list(range(*slice(a, b, c).indices(d)))


def ix_valid(ix, d):
    """index expressions every reading of the property must accept: in-range, non-negative, non-empty"""
    if "i" in ix:
        return 0 <= ix["i"] < d
    if "l" in ix:
        return len(ix["l"]) > 0 and all(0 <= i < d for i in ix["l"])
    a, b, c = ix["s"]
    return c != 0 and len(range(*slice(a, b, c).indices(d))) > 0


def obj_array(cells, shape):
    o = np.empty(shape, dtype=object)
    flat = o.reshape(-1)
    for i, c in enumerate(cells):
        flat[i] = c
    return o


def addressed(cells, shape, idx):
    """(cells addressed in row-major order of the index product, their flat positions, selection shape);
    None if an index is out of range under Python/NumPy semantics"""
    full = list(idx) + [{"s": [None, None, None]}] * (len(shape) - len(idx))
    try:
        lists = [py_indices(ix, d) for ix, d in zip(full, shape)]
    except ValueError:
        return None
    o = obj_array(cells, shape)
    pos = obj_array(list(range(len(cells))), shape)
    out, where = [], []
    try:
        for p in itertools.product(*lists):
            out.append(o[tuple(p)])
            where.append(int(pos[tuple(p)]))
    except IndexError:
        return None
    return out, where, [len(l) for l in lists]


def proper(x, nf):
    return isinstance(x, np.ndarray) and x.ndim == 2 and x.shape[1] == nf


def sig_nd(shape):
    return f"{len(shape)}d"


def check_structure(ctx, w, case, opk):
    """P1 + P2 on every live vector; returns False if some vector cannot be observed any more"""
    ok = True
    for vid, v in enumerate(w.vecs):
        try:
            cells = flat_cells(v)
        except Structural as e:
            ctx.pred_fail(f"structure-broken:{opk}:{sig_nd(v.shape)}", "nested cell storage no longer matches the shape", case,
                          observed=str(e), required=f"nested lists of shape {tuple(v.shape)}")
            ok = False
            continue
        nf = len(v.fields)
        for i, c in enumerate(cells):
            if c is None:
                continue
            if not proper(c, nf):
                ctx.pred_fail(f"cell-not-2d-with-field-columns:{opk}", "a populated cell is not a 2-D array with one column per field",
                              case, observed={"vec": vid, "cell": i, "type": type(c).__name__, "shape": getattr(c, "shape", None), "fields": v.fields},
                              required=f"ndarray of shape (_, {nf})")
                ok = False
        if len(set(v.fields)) != len(v.fields) or len(v.units) != len(v.fields):
            ctx.pred_fail(f"fields-units:{opk}", "field names not unique / not aligned with units", case,
                          observed={"vec": vid, "fields": v.fields, "units": v.units}, required="unique fields, one unit per field")
            ok = False
    return ok


def check_flatten(ctx, w, case, opk):
    """P3a: field view = row-major concatenation of the column over the populated cells"""
    for vid, v in enumerate(w.vecs):
        cells = [c for c in flat_cells(v) if c is not None]
        nf = len(v.fields)
        for j, f in enumerate(v.fields):
            try:
                got = np.asarray(v[f].flatten())
            except Exception as e:  # noqa
                ctx.pred_fail(f"flatten-raises:{opk}", f"v[{f!r}].flatten() raised {type(e).__name__}", case, observed=str(e), required="1-D array")
                continue
            exp = np.concatenate([c[:, j] for c in cells]) if cells else np.zeros((0,))
            if got.ndim != 1 or got.shape != exp.shape or not np.array_equal(got, exp):
                ctx.pred_fail(f"flatten-field:{opk}:{sig_nd(v.shape)}", "field flatten differs from the row-major concatenation of that column",
                              case, observed={"vec": vid, "field": f, "got": got.tolist()}, required=exp.tolist())
        try:
            got = np.asarray(v.flatten())
            exp = np.vstack(cells) if cells else np.zeros((0, nf))
            if got.shape != exp.shape or not np.array_equal(got, exp):
                ctx.pred_fail(f"flatten-all:{opk}", "Vector.flatten differs from the row-major stack of all cells", case,
                              observed={"vec": vid, "got": got.tolist()}, required=exp.tolist())
        except Exception as e:  # noqa
            ctx.pred_fail(f"flatten-raises:{opk}", f"v.flatten() raised {type(e).__name__}", case, observed=str(e), required="2-D array")


def same_cells(a, b):
    return len(a) == len(b) and all(x is y for x, y in zip(a, b))


def describe(cells):
    return [None if c is None else (f"arr#{id(c) % 100000}", getattr(c, "shape", None)) for c in cells]


def op_valid(w, before, op):
    """does every reading of the property require this op to succeed?  (conservative: False = no claim)"""
    k = op["op"]
    if k in ("alloc", "copy", "meta_set", "remove_fields"):
        return True
    if k == "field_op_gen":
        return op.get("expect") == "ok"       # the generator's exact simulation found no broadcasting / dtype error
    if k in ("writeback", "field_op", "set_flattened"):
        b = before["vecs"][op["v"]]
        if op["f"] not in b["fields"]:
            return False
        if k == "set_flattened":
            total = sum(c.shape[0] for c in b["cells"] if c is not None)
            return isinstance(op["vals"], list) and len(op["vals"]) == total
        return True
    if k == "add_fields":
        b = before["vecs"][op["v"]]
        return len(set(op["names"])) == len(op["names"]) and not (set(op["names"]) & set(b["fields"]))
    if k in ("getitem", "get_data", "setitem", "set_data"):
        b = before["vecs"][op["v"]]
        shape, nf = b["shape"], len(b["fields"])
        idx = op["idx"]
        if len(idx) != len(shape):      # short / over-long index tuples: no claim that they must be accepted
            return False
        if len(shape) == 0 and k in ("setitem", "set_data"):
            return False                # zero fixed dimensions are outside the property's quantifier (1..3)
        full = list(idx) + [{"s": [None, None, None]}] * (len(shape) - len(idx))
        if not all(ix_valid(ix, d) for ix, d in zip(full, shape)):
            return False
        if k in ("getitem", "get_data"):
            return True
        lists = [py_indices(ix, d) for ix, d in zip(full, shape)]
        total = int(np.prod([len(l) for l in lists]))
        val = op["val"]
        if k == "setitem":
            single = all("i" in ix for ix in full)
            multi = any("s" in ix or ("l" in ix and len(ix["l"]) > 1) for ix in full)
        else:
            single = all(len(l) == 1 for l in lists)
            multi = not single
        if single and "one" in val:
            return "p" in val["one"] and proper(w_pool_at(before, val["one"]["p"]), nf)
        if multi and "many" in val:
            return len(val["many"]) == total and all("p" in x and proper(w_pool_at(before, x["p"]), nf) for x in val["many"])
        if multi and "vec" in val and k == "setitem":
            src = before["vecs"][val["vec"]]["cells"]
            return len(src) == total and all(proper(c, nf) for c in src)
        return False
    return False


def w_pool_at(before, i):
    return before["pool"][i] if i < len(before["pool"]) else None


def effective(w, op):
    """the operation a request on a HELD object stands for, on the vector and the field NAME the object was made from
    (the kind-specific clauses of the property are evaluated on that); the original kind stays in `kind`"""
    k = op["op"]
    if k in ("view_op", "view_set", "view_restore", "view_get", "view_flatten") and op["w"] < len(w.views):
        hv = w.views[op["w"]]
        base = {"v": hv["v"], "f": hv["f"], "kind": k}
        if k == "view_op":
            return dict(base, op="field_op_gen", k=op["k"], rhs=op["rhs"], neg_int_pow=op.get("neg_int_pow", False), expect=op.get("expect"))
        if k == "view_set":
            return dict(base, op="set_flattened", vals=op.get("vals"))
        if k == "view_restore":
            # what the kept array held when it was handed out (or after the caller's own changes): the oracle's copy
            vals = [qstr(x) for x in w.kept[op["kept"]]["copy"].tolist()] if op["kept"] < len(w.kept) else None
            return dict(base, op="set_flattened", vals=vals)
        if k == "view_get":
            return dict(base, op="field_get", idx=op["idx"])
        return dict(base, op="view_flatten")
    return dict(op, kind=k)


def same_array(a, b):
    return a.shape == b.shape and a.dtype == b.dtype and np.array_equal(a, b)


def check_kept(ctx, w, op, res, case):
    """clauses about objects the caller holds across later operations (real class only, no Lean):
    * a flattened field handed out earlier must still hold the values it was taken with after any later operation on
      the vector (otherwise writing it back does NOT restore the data it was the concatenation of);
    * a held field view of a field that still exists reads the column that field NAME has now."""
    k = op["op"]
    for i, kp in enumerate(w.kept):
        if k == "kept_mutate" and op.get("kept") == i:
            kp["copy"] = kp["obj"].copy()
            continue
        if not same_array(kp["obj"], kp["copy"]):
            ctx.pred_fail(f"kept-flatten-follows-later-change:{k}",
                          "an array returned earlier by v[f].flatten() changed when the vector was modified later: it is a live view "
                          "of the cell storage, not the concatenation; writing it back no longer restores the data it was taken from", case,
                          observed={"kept": i, "field": kp["f"], "now": kp["obj"].tolist()}, required={"unchanged": kp["copy"].tolist()})
            kp["copy"] = kp["obj"].copy()
    for vi, hv in enumerate(w.views):
        v = w.vecs[hv["v"]]
        if hv["f"] not in v.fields:
            continue            # the field is gone: nothing is claimed about the view
        j = list(v.fields).index(hv["f"])
        try:
            cells = [c for c in flat_cells(v) if c is not None]
            exp = np.concatenate([c[:, j] for c in cells]) if cells else np.zeros((0,))
        except Exception:  # noqa  (structure already reported by check_structure)
            continue
        try:
            got = np.asarray(hv["fv"].flatten())
        except Exception as e:  # noqa
            ctx.pred_fail(f"held-view-flatten:{k}", f"flatten() of a field view made earlier for field {hv['f']!r} raised {type(e).__name__} although the field still exists",
                          case, observed={"view": vi, "error": str(e), "fields_now": list(v.fields)}, required=exp.tolist())
            continue
        if got.shape != exp.shape or not np.array_equal(got, exp):
            ctx.pred_fail(f"held-view-flatten:{k}", f"a field view made earlier for field {hv['f']!r} no longer reads that field's column "
                          "(row-major concatenation over the populated cells)", case,
                          observed={"view": vi, "got": got.tolist(), "fields_now": list(v.fields)}, required=exp.tolist())


def check_op(ctx, w, before, op, res, case):
    """kind-specific clauses of the property on the real outcome; returns False to stop the sequence"""
    k = op["op"]
    opk = k
    okres = "ok" in res
    if not check_structure(ctx, w, case, opk):
        return False
    after = snapshot(w)
    after["pool"] = list(w.pool)
    check_flatten(ctx, w, case, opk)
    bv = before["vecs"]
    av = after["vecs"]
    tgt = op.get("v")
    nd = sig_nd(bv[tgt]["shape"]) if tgt is not None and tgt < len(bv) else "-"
    if not okres and op_valid(w, before, op):
        ctx.pred_fail(f"valid-op-raises:{k}:{nd}", f"a valid {k} raised {res['err']}", case, observed=res,
                      required="success (in-range non-empty index expression, well-formed values)")
    # ---- frame: which existing arrays may change their contents
    may_change = set()
    if k in ("field_op", "field_op_gen", "set_flattened") and tgt < len(bv):
        may_change = {id(c) for c in bv[tgt]["cells"] if c is not None}
    if k == "setitem" and tgt < len(bv) and len(op["idx"]) > len(bv[tgt]["shape"]):
        # v[i, j, k] = row : writes INTO the addressed cell array
        may_change = {id(c) for c in bv[tgt]["cells"] if c is not None}
    for i, (a, old) in before["arrays"].items():
        if i in may_change:
            continue
        if a.shape != old.shape or not np.array_equal(a, old):
            key = "writeback-changes-data" if k == "writeback" else f"frame:{k}"
            ctx.pred_fail(key, ("writing a field's flattened view back changed the data" if k == "writeback" else
                                f"{k} on vector {tgt} changed an array that is not one of its cells (hidden shared state)"),
                          case, observed={"now": a.tolist()}, required={"unchanged": old.tolist()})
    # ---- what an op may change besides array contents: only the target's own cells / schema / metadata
    for vid, b in enumerate(bv):
        a = av[vid]
        mine = vid == tgt
        if not (mine and k in ("add_fields", "remove_fields")):
            if a["fields"] != b["fields"] or a["units"] != b["units"] or a["shape"] != b["shape"]:
                ctx.pred_fail(f"schema-changed:{k}", f"{k} on vector {tgt} changed shape/fields/units of vector {vid}", case,
                              observed=[a["shape"], a["fields"], a["units"]], required=[b["shape"], b["fields"], b["units"]])
        if not (mine and k in ("setitem", "set_data", "set_data_attr", "add_fields", "remove_fields")):
            if not same_cells(a["cells"], b["cells"]):
                ctx.pred_fail(f"cells-changed:{k}", f"{k} on vector {tgt} re-bound cells of vector {vid}", case,
                              observed=describe(a["cells"]), required=describe(b["cells"]))
        if not (mine and k == "meta_set") and a["meta_copy"] != b["meta_copy"]:
            ctx.pred_fail(f"metadata-leak:{k}", f"{k} on vector {tgt} changed the metadata of vector {vid} (shared mutable state)", case,
                          observed=a["meta_copy"], required=b["meta_copy"])
    # ---- field arithmetic / set_flattened against the exact pure-Python reference (cells in order, arrays by identity)
    if k in ("field_op", "field_op_gen", "set_flattened") and tgt < len(bv) and op["f"] in bv[tgt]["fields"]:
        b = bv[tgt]
        j = b["fields"].index(op["f"])
        mats = mats_of(before["arrays"])
        exp_err, skip = None, False
        try:
            if k == "set_flattened":
                total = sum(c.shape[0] for c in b["cells"] if c is not None)
                if isinstance(op["vals"], list) and len(op["vals"]) == total:
                    sim_set_flattened(mats, b["cells"], j, [Fraction(t) for t in op["vals"]])
                else:
                    skip = True
            else:
                rhs = op["rhs"] if k == "field_op_gen" else {"c": op["c"]}
                rc, rj = None, None
                if "w" in rhs:
                    ob = bv[rhs["w"]]
                    if rhs["wf"] in ob["fields"]:
                        rc, rj = ob["cells"], ob["fields"].index(rhs["wf"])
                    else:
                        skip = True
                if not skip:
                    exp_err = sim_field_op(mats, b["cells"], j, op["k"], rhs, op.get("neg_int_pow", False), rc, rj)
        except (ZeroDivisionError, Inexact):
            skip = True
        if not skip:
            if (exp_err or "ok") != res.get("err", "ok"):
                ctx.pred_fail(f"field-outcome:{k}", f"{k} on field {op['f']!r}: outcome differs from the reference model", case,
                              observed=res, required=exp_err or "ok")
            else:
                for i, (a, _) in before["arrays"].items():
                    if i in mats and isinstance(a, np.ndarray) and a.ndim == 2:
                        got = [[Fraction(x) for x in row] for row in a.tolist()]
                        if got != mats[i][0]:
                            col_only = all(g[:j] + g[j + 1:] == e[:j] + e[j + 1:] for g, e in zip(got, mats[i][0])) if len(got) == len(mats[i][0]) else False
                            ctx.pred_fail(f"field-values:{k}" if col_only else f"field-other-columns:{k}",
                                          f"{k} on field {op['f']!r} did not produce the reference values"
                                          + ("" if col_only else " (a column other than the selected one, or the row count, changed)"),
                                          case, observed=[[fstr(x) for x in r] for r in got], required=[[fstr(x) for x in r] for r in mats[i][0]])
                            break
    if not okres:
        return True
    # ---- creation
    if k in ("from_shape", "from_data", "copy"):
        nid = res["ok"]["vec"]
        n = av[nid]
        for vid, a in enumerate(av):
            if vid != nid and a["meta"] is n["meta"]:
                ctx.pred_fail(f"shared-metadata:{k}", f"the vector made by {k} shares its metadata dict with vector {vid}", case,
                              observed="v_new.metadata is v_old.metadata", required="independent metadata")
                break
        nv = w.vecs[nid]
        for vid, ov in enumerate(w.vecs):
            if vid != nid and (nv.fields is ov.fields or nv.units is ov.units):
                ctx.pred_fail(f"shared-schema-list:{k}", f"the vector made by {k} shares its fields/units LIST object with vector {vid} (shared mutable state)", case,
                              observed={"fields_shared": nv.fields is ov.fields, "units_shared": nv.units is ov.units}, required="lists of its own")
                break
        if k == "from_shape":
            if any(c is not None for c in n["cells"]) or list(n["shape"]) != list(op["shape"]):
                ctx.pred_fail("from-shape-cells", "from_shape did not make an all-unset vector of the requested shape", case,
                              observed=[n["shape"], describe(n["cells"])], required=op["shape"])
        if k == "from_data":
            items = op["items"]
            good = len(n["cells"]) == len(items) and n["shape"] == (len(items),)
            for c, it in zip(n["cells"], items):
                if "p" in it:
                    good = good and c is before["pool"][it["p"]]
                elif "lit" in it:
                    good = good and isinstance(c, np.ndarray) and id(c) not in before["arrays"] and rows_of(c) == [list(map(fstr, map(Fraction, r))) for r in it["lit"]["rows"]]
            if not good:
                ctx.pred_fail("from-data-cells", "from_data did not store the given arrays cell by cell", case,
                              observed=describe(n["cells"]), required="cell k is item k")
        if k == "copy":
            s = bv[tgt]
            if n["shape"] != s["shape"] or n["fields"] != s["fields"] or n["units"] != s["units"] or len(n["cells"]) != len(s["cells"]):
                ctx.pred_fail("copy-schema", "copy differs from the source in shape/fields/units", case,
                              observed=[n["shape"], n["fields"], n["units"]], required=[s["shape"], s["fields"], s["units"]])
            else:
                for i, (c, o) in enumerate(zip(n["cells"], s["cells"])):
                    if (c is None) != (o is None) or (c is not None and (c.shape != o.shape or c.dtype != o.dtype or not np.array_equal(c, o))):
                        ctx.pred_fail("copy-values", "copy does not hold the same data as the source", case,
                                      observed={"cell": i, "copy": None if c is None else c.tolist()}, required=None if o is None else o.tolist())
                        break
                    if c is not None and id(c) in before["arrays"]:
                        ctx.pred_fail("copy-shares-array", "a cell of the copy is an array object that already existed (shared mutable state)", case,
                                      observed={"cell": i}, required="fresh arrays")
                        break
    # ---- retrieval: the addressed cells, by identity
    if k in ("getitem", "get_data") and len(op["idx"]) <= len(bv[tgt]["shape"]):
        b = bv[tgt]
        want = addressed(b["cells"], b["shape"], op["idx"])
        if want is not None:
            exp, _, lens = want
            r = res["ok"]
            if "vec" in r:
                n = av[r["vec"]]
                if list(n["shape"]) != lens or not same_cells(n["cells"], exp) or n["fields"] != b["fields"] or n["units"] != b["units"]:
                    ctx.pred_fail(f"slice-cells:{k}:{nd}", "slicing did not return the addressed cells", case,
                                  observed={"shape": n["shape"], "cells": describe(n["cells"])}, required={"shape": lens, "cells": describe(exp)})
            elif "cells" in r:
                got = after["pool"][len(before["pool"]):]
                expl = [c for c in exp if c is not None]
                if r["cells"] != [c is not None for c in exp] or not same_cells(got, expl):
                    ctx.pred_fail(f"slice-cells:{k}:{nd}", "get_data did not return the addressed cells", case,
                                  observed=describe(got), required=describe(exp))
            else:
                got = after["pool"][len(before["pool"]):]
                if len(exp) != 1 or (exp[0] is None) == r["cell"] or (exp[0] is not None and not (len(got) == 1 and got[0] is exp[0])):
                    ctx.pred_fail(f"slice-cells:{k}:{nd}", "single-cell retrieval did not return the addressed cell", case,
                                  observed=describe(got), required=describe(exp))
    # ---- assignment: exactly the addressed cells now hold the given arrays
    if k in ("setitem", "set_data") and len(op["idx"]) <= len(bv[tgt]["shape"]):
        b = bv[tgt]
        want = addressed(b["cells"], b["shape"], op["idx"])
        if want is not None:
            _, where, _ = want
            val = op["val"]
            if "one" in val:
                vals = [w_pool_at(before, val["one"]["p"])] if "p" in val["one"] else None
            elif "many" in val:
                vals = [w_pool_at(before, x["p"]) if "p" in x else None for x in val["many"]]
            else:
                vals = list(bv[val["vec"]]["cells"])
            if vals is not None and len(vals) == len(where) and all(x is not None for x in vals):
                exp = list(b["cells"])
                for p, x in zip(where, vals):
                    exp[p] = x
                if not same_cells(av[tgt]["cells"], exp):
                    ctx.pred_fail(f"assign-cells:{k}:{nd}", "assignment did not put the given arrays into the addressed cells", case,
                                  observed=describe(av[tgt]["cells"]), required=describe(exp))
    if k == "set_data_attr":
        exp = [before["pool"][it["p"]] if "p" in it else None for it in op["items"]]
        got = av[tgt]["cells"]
        if len(got) != len(exp) or any(e is not None and g is not e for g, e in zip(got, exp)):
            ctx.pred_fail("data-setter-cells", "`v.data = …` did not store the given arrays cell by cell", case,
                          observed=describe(got), required=describe(exp))
    # ---- add / remove fields
    if k in ("add_fields", "remove_fields"):
        b, a = bv[tgt], av[tgt]
        if k == "add_fields":
            keep = list(range(len(b["fields"])))
            ef = b["fields"] + list(op["names"])
            eu = b["units"] + ["none"] * len(op["names"])
            extra = len(op["names"])
        else:
            keep = [i for i, f in enumerate(b["fields"]) if f not in op["names"]]
            ef = [b["fields"][i] for i in keep]
            eu = [b["units"][i] for i in keep]
            extra = 0
        if a["fields"] != ef or a["units"] != eu or a["shape"] != b["shape"]:
            ctx.pred_fail(f"schema:{k}", f"{k} produced the wrong field/unit lists", case, observed=[a["fields"], a["units"]], required=[ef, eu])
        else:
            for i, (c, o) in enumerate(zip(a["cells"], b["cells"])):
                if (c is None) != (o is None):
                    ctx.pred_fail(f"cells:{k}", f"{k} changed which cells are populated", case, observed=describe(a["cells"]), required=describe(b["cells"]))
                    break
                if c is None:
                    continue
                oldv = before["arrays"][id(o)][1]
                exp = np.hstack([oldv[:, keep], np.zeros((oldv.shape[0], extra))])
                if c.shape != exp.shape or not np.array_equal(c, exp):
                    ctx.pred_fail(f"values:{k}", f"{k} did not keep the remaining columns / zero-fill the new ones", case,
                                  observed={"cell": i, "got": c.tolist()}, required=exp.tolist())
                    break
    return True


# ---------------------------------------------------------------------------------------
# correspondence with the Lean model

class Tie:
    """persistent bijection model heap reference ↔ Python object (the alias fingerprint over time)"""

    def __init__(self):
        self.m2r = {}
        self.r2m = {}
        self.meta_m2r = {}
        self.meta_r2m = {}

    def pair(self, m, obj, m2r, r2m):
        if m is None and obj is None:
            return True
        if m is None or obj is None:
            return False
        if id(obj) in r2m:
            return r2m[id(obj)] == m
        if m in m2r:
            return False
        m2r[m] = obj
        r2m[id(obj)] = m
        return True


def compare_state(ctx, tie, w, mobs, case, note):
    """model observation vs real world; returns True when identical"""
    def bad(where, model, impl):
        ctx.disagree("vector-ops", case, {"at": where, "value": model}, {"at": where, "value": impl}, note=note)
        return False
    if len(mobs["vecs"]) != len(w.vecs):
        return bad("#vectors", len(mobs["vecs"]), len(w.vecs))
    if len(mobs["pool"]) != len(w.pool):
        return bad("#pool", len(mobs["pool"]), len(w.pool))
    for i, (m, o) in enumerate(zip(mobs["pool"], w.pool)):
        if not tie.pair(m, o, tie.m2r, tie.r2m):
            return bad(f"pool[{i}] identity", m, tie.r2m.get(id(o)))
    for vid, (mv, v) in enumerate(zip(mobs["vecs"], w.vecs)):
        cells = flat_cells(v)
        iv = {"shape": list(v.shape), "fields": list(v.fields), "units": list(v.units)}
        for key in ("shape", "fields", "units"):
            if mv[key] != iv[key]:
                return bad(f"vec{vid}.{key}", mv[key], iv[key])
        if len(mv["cells"]) != len(cells):
            return bad(f"vec{vid}.#cells", len(mv["cells"]), len(cells))
        for i, (m, c) in enumerate(zip(mv["cells"], cells)):
            if not tie.pair(m, c, tie.m2r, tie.r2m):
                return bad(f"vec{vid}.cell[{i}] identity (model ref vs ref of the real object)", m,
                           None if c is None else tie.r2m.get(id(c), "unknown-object"))
        if not tie.pair(mv["meta"], v.metadata, tie.meta_m2r, tie.meta_r2m):
            return bad(f"vec{vid}.metadata identity", mv["meta"], tie.meta_r2m.get(id(v.metadata)))
        md = mobs["metas"][mv["meta"]]
        if sorted(map(tuple, md)) != sorted((k, x) for k, x in v.metadata.items()):
            return bad(f"vec{vid}.metadata", md, dict(v.metadata))
        try:
            fl = [np.asarray(v[f].flatten()) for f in v.fields]
            fa = np.asarray(v.flatten())
        except Exception as e:  # noqa
            return bad(f"vec{vid}.flatten", mv["flat"], f"raised {type(e).__name__}: {e}")
        flat = [[qstr(x) for x in a.tolist()] for a in fl]
        if mv["flat"] != flat:
            return bad(f"vec{vid}.flatten(field)", mv["flat"], flat)
        allr = rows_of(fa)
        if mv["all"] != allr:
            return bad(f"vec{vid}.flatten()", mv["all"], allr)
        kinds = [fa.dtype.kind == "i"] + [a.dtype.kind == "i" for a in fl]
        if any(kd != mv["flat_int"] for kd in kinds):
            return bad(f"vec{vid}.flatten dtype is int64", mv["flat_int"], kinds)
    for r, ncols, rows, is_int in mobs["heap"]:
        o = tie.m2r.get(r)
        if o is None:
            return bad(f"heap[{r}]", "reachable", "no real object")
        if not (isinstance(o, np.ndarray) and o.ndim == 2):
            return bad(f"heap[{r}].ndim", 2, getattr(o, "shape", None))
        if o.shape[1] != ncols or rows_of(o) != rows:
            return bad(f"heap[{r}] values", {"ncols": ncols, "rows": rows}, {"ncols": o.shape[1], "rows": rows_of(o)})
        if (o.dtype.kind == "i") != is_int or o.dtype.kind not in "if":
            return bad(f"heap[{r}] dtype is int64", is_int, str(o.dtype))
    # objects the caller holds: kept flattened arrays (values the model says they have NOW), number of held views
    if mobs.get("nviews", 0) != len(w.views):
        return bad("#held views", mobs.get("nviews"), len(w.views))
    kept = [np_json(kp["obj"]) for kp in w.kept]
    if mobs.get("kept", []) != json.loads(json.dumps(kept)):
        return bad("kept flatten() results", mobs.get("kept"), kept)
    for i, ka in enumerate(w.kept_all):
        if not same_array(ka["obj"], ka["copy"]):
            return bad(f"kept Vector.flatten() result #{i} (the model hands out a new array that nothing can change)", ka["copy"].tolist(), ka["obj"].tolist())
    return True


# ---------------------------------------------------------------------------------------
# generator

def q(rng):
    return fstr(Fraction(rng.randint(-32, 32), 4))


def gen_rows(rng, ncols, nrows=None, is_int=False):
    n = rng.weighted([(0, 2), (1, 5), (2, 4), (3, 2)]) if nrows is None else nrows
    if is_int:
        return [[str(rng.randint(-8, 8)) for _ in range(ncols)] for _ in range(n)]
    return [[q(rng) for _ in range(ncols)] for _ in range(n)]


def gen_extras(rng, ints_only):
    """indices beyond the fixed dimensions: they index INTO the cell array (rows, then columns, then a scalar)"""
    out = []
    for lvl in range(rng.weighted([(1, 5), (2, 3), (3, 1), (4, 1)])):
        kind = "i" if ints_only else rng.weighted([("i", 6), ("s", 2), ("l", 2)])
        if kind == "i":
            out.append({"i": rng.choice([0, 0, 1, 1, 2, -1, -2, 3, 5])})
        elif kind == "s":
            out.append({"s": [rng.choice([None, 0, 1, -1]), rng.choice([None, 1, 2, 5]), rng.choice([None, None, 1, 2, -1])]})
        else:
            out.append({"l": [rng.choice([0, 1, -1, 2, 4]) for _ in range(rng.randint(1, 2))], "np": rng.chance(0.4)})
    return out


def gen_ix(rng, d, valid):
    kind = rng.weighted([("i", 5), ("s", 4), ("l", 3)])
    if kind == "i":
        if valid or rng.chance(0.5):
            return {"i": rng.randint(0, d - 1)}
        return {"i": rng.choice([-1, -d, d, d + 1, -d - 1])}
    if kind == "l":
        n = rng.weighted([(1, 3), (2, 4), (3, 2)]) if valid or rng.chance(0.8) else 0
        if valid or rng.chance(0.6):
            l = [rng.randint(0, d - 1) for _ in range(n)]
        else:
            l = [rng.choice([-1, d, rng.randint(0, d - 1), -d - 1]) for _ in range(n)]
        return {"l": l, "np": rng.chance(0.4)}
    for _ in range(20):
        a = rng.choice([None, None] + list(range(-d - 1, d + 2)))
        b = rng.choice([None, None] + list(range(-d - 1, d + 2)))
        c = rng.weighted([(None, 5), (1, 2), (2, 2), (-1, 2), (-2, 1), (3, 1), (0, 0 if valid else 1)])
        if not valid or (c != 0 and len(range(*slice(a, b, c).indices(d))) > 0):
            return {"s": [a, b, c]}
    return {"s": [None, None, None]}


def gen_idx(rng, shape, valid, exact):
    nd = len(shape)
    n = nd
    if nd == 0:
        if not valid and exact and rng.chance(0.3):
            return [{"i": 0}]
        return []
    if not exact and rng.chance(0.25):
        n = rng.randint(1, nd)
    elif not valid and exact and rng.chance(0.2):
        n = rng.choice([max(nd - 1, 0), nd + 1])
        return [gen_ix(rng, shape[i % nd], True) for i in range(n)]
    return [gen_ix(rng, shape[i], valid) for i in range(n)]


class Gen:
    def __init__(self, rng, w, max_dim, ctx=None):
        self.rng = rng
        self.w = w
        self.max_dim = max_dim
        self.ctx = ctx

    def pool_with(self, ncols):
        return [i for i, a in enumerate(self.w.pool) if isinstance(a, np.ndarray) and a.ndim == 2 and a.shape[1] == ncols]

    def value(self, pre, ncols, good=True, in_list=False, nrows=None):
        """a pool reference to a (good: matching) array, allocating when needed; returns the val json.
        A Python list as a bad value only makes sense as an ELEMENT of a value list."""
        rng = self.rng
        if not good:
            kind = rng.weighted([("cols", 4), ("1d", 1), ("3d", 1), ("none", 1), ("list", 1 if in_list else 0)])
            if kind != "cols":
                return {"bad": kind, "d1": ncols}
            ncols = rng.choice([ncols + 1, max(ncols - 1, 0)]) if ncols > 0 else 1
        cands = self.pool_with(ncols)
        if nrows is not None:
            cands = [i for i in cands if self.w.pool[i].shape[0] == nrows]
        npool = len(self.w.pool) + sum(1 for o in pre if o["op"] == "alloc")
        if cands and rng.chance(0.35):
            return {"p": rng.choice(cands)}
        is_int = rng.chance(0.25)
        pre.append({"op": "alloc", "ncols": ncols, "rows": gen_rows(rng, ncols, nrows, is_int), "int": is_int,
                    "layout": rng.weighted([("C", 6), ("F", 2), ("rows2", 2), ("cols2", 2), ("rev", 1), ("revcols", 1)])})
        return {"p": npool}

    def live_mats(self):
        arrs = [a for a in self.w.pool if isinstance(a, np.ndarray)]
        for v in self.w.vecs:
            arrs += [c for c in flat_cells(v) if isinstance(c, np.ndarray)]
        return mats_of(arrs)

    def gate_field(self, vid, f, k, rhs, neg):
        """exact simulation of the candidate on the live arrays: None = reject (division by zero, or a result that
        float64 / int64 would not hold exactly); otherwise the expected outcome"""
        v = self.w.vecs[vid]
        if f not in v.fields:
            return "KeyError"
        rc, rj = None, None
        if "w" in rhs:
            u = self.w.vecs[rhs["w"]]
            if rhs["wf"] not in u.fields:
                return "KeyError"
            rc, rj = flat_cells(u), list(u.fields).index(rhs["wf"])
        mats = self.live_mats()
        try:
            e = sim_field_op(mats, flat_cells(v), list(v.fields).index(f), k, rhs, neg, rc, rj, strict=True)
        except (ZeroDivisionError, OverflowError, Inexact):
            return None
        return (e or "ok") if exact_ok(mats) else None

    def fields(self, n):
        return self.rng.sample(NAMES, n)

    def create(self):
        rng = self.rng
        pre = []
        if rng.chance(0.6):
            nd = rng.weighted([(1, 3), (2, 4), (3, 3), (0, 0.35)])
            shape = [rng.randint(1, self.max_dim) for _ in range(nd)]
            if rng.chance(0.15):
                shape = [1] * nd          # a single cell: (1,), (1, 1), (1, 1, 1)
            op = {"op": "from_shape", "shape": shape}
            nf = rng.weighted([(0, 1), (1, 3), (2, 4), (3, 3), (4, 1)])
            if rng.chance(0.5):
                op["fields"] = self.fields(nf)
                if rng.chance(0.2):
                    op["num_fields"] = nf
            else:
                op["num_fields"] = max(nf, 1)
                nf = max(nf, 1)
            if rng.chance(0.4):
                op["units"] = [rng.choice(UNITS) for _ in range(nf)]
            if rng.chance(0.12):   # malformed
                m = rng.choice(["dup", "nfmis", "units", "dim0", "neither", "nf0"])
                if m == "dup" and nf >= 1:
                    op["fields"] = (op.get("fields") or self.fields(nf)) + [(op.get("fields") or ["x"])[0]]
                    op.pop("num_fields", None)
                    op.pop("units", None)
                elif m == "nfmis":
                    op["fields"] = self.fields(nf)
                    op["num_fields"] = nf + 1
                elif m == "units":
                    op["units"] = ["m"] * (nf + 1)
                elif m == "dim0" and nd:
                    op["shape"][rng.below(nd)] = rng.choice([0, -1])
                elif m == "neither":
                    op.pop("fields", None)
                    op.pop("num_fields", None)
                else:
                    op.pop("fields", None)
                    op["num_fields"] = 0
                    op.pop("units", None)
            self.reuse(op)
            return pre + [op]
        nf = rng.weighted([(1, 3), (2, 4), (3, 3)])
        n = rng.randint(1, max(self.max_dim, 3))
        items = []
        bad = rng.chance(0.15)
        for i in range(n):
            if bad and rng.chance(0.4):
                kind = rng.weighted([("cols", 3), ("1d", 2), ("3d", 3), ("none", 1), ("lit1d", 1)])
                if kind == "cols":
                    items.append(self.value(pre, nf, good=False) if rng.chance(0.5) else {"lit": {"ncols": nf + 1, "rows": gen_rows(rng, nf + 1, 1)}})
                elif kind == "lit1d":
                    items.append({"lit1d": True})
                else:
                    items.append({"bad": kind, "d1": nf})
            elif rng.chance(0.3):
                li = rng.chance(0.35)
                items.append({"lit": {"ncols": nf, "rows": gen_rows(rng, nf, rng.randint(1, 3), li), "int": li}})
            else:
                items.append(self.value(pre, nf))
        op = {"op": "from_data", "items": items}
        r = rng.random()
        if r < 0.5:
            op["fields"] = self.fields(nf)
        elif r < 0.8:
            op["num_fields"] = nf
        if rng.chance(0.3):
            op["units"] = [rng.choice(UNITS) for _ in range(nf)]
        if rng.chance(0.08):
            m = rng.choice(["nfmis", "fieldsmis", "empty"])
            if m == "nfmis":
                op["num_fields"] = nf + 1
            elif m == "fieldsmis":
                op["fields"] = self.fields(nf + 1)
            else:
                op["items"] = []
        self.reuse(op)
        return pre + [op]

    def reuse(self, op):
        """sometimes the caller hands the SAME fields / units list objects to two creation calls"""
        ll = self.w.last_lists
        if ll is not None and self.rng.chance(0.25) and isinstance(ll[0], list) and op.get("fields") is not None \
                and len(ll[0]) == len(op["fields"]) and "num_fields" not in op:
            op["fields"] = list(ll[0])
            if ll[1] is not None and "units" in op and len(ll[1]) == len(op["units"]):
                op["units"] = list(ll[1])
            op["reuse_lists"] = True
        elif op.get("fields") is not None and self.rng.chance(0.15):
            op["fields_tuple"] = True

    def ops(self):
        out = self.ops_plain()
        for op in out:
            if "idx" in op and op.get("v", 1 << 30) < len(self.w.vecs):
                decorate_forms(self.rng, op, len(self.w.vecs[op["v"]].shape))
        return out

    def ops_plain(self):
        """next op(s): possibly some `alloc`s followed by one operation"""
        rng, w = self.rng, self.w
        if not w.vecs or (len(w.vecs) < 2 and rng.chance(0.3)) or (len(w.vecs) < 7 and rng.chance(0.05)):
            return self.create()
        vid = rng.below(len(w.vecs))
        if rng.chance(0.5):   # prefer recently made vectors (views, copies) half of the time
            vid = len(w.vecs) - 1 - rng.below(min(3, len(w.vecs)))
        v = w.vecs[vid]
        shape, fields = list(v.shape), list(v.fields)
        nf = len(fields)
        room = len(w.vecs) < 9
        vroom = len(w.views) < 6
        kroom = len(w.kept) < 6
        kind = rng.weighted([("setitem", 9), ("set_data", 5), ("getitem", 6 if room else 1), ("get_data", 4), ("field_op", 4), ("field_op_gen", 5), ("field_get", 2),
                             ("set_flattened", 4), ("writeback", 2), ("add_fields", 2), ("remove_fields", 2.5),
                             ("copy", 2 if room else 0), ("meta_set", 2), ("set_data_attr", 1), ("assign_view", 2 if room else 0),
                             ("view_make", 2 if vroom else 0), ("view_use", 6 if w.views else 0), ("kept_mutate", 2.5 if w.kept else 0),
                             ("keep_all", 0.7 if len(w.kept_all) < 3 else 0), ("restore_idiom", 1.5 if (vroom and kroom) else 0),
                             ("stale_idiom", 1.5 if vroom else 0), ("populate", 2)])
        pre = []
        valid = rng.chance(0.85)
        if kind in ("getitem", "get_data", "field_get"):
            op = {"op": kind, "v": vid, "idx": gen_idx(rng, shape, valid, exact=(kind == "get_data"))}
            if kind != "get_data" and rng.chance(0.15):
                # more indices than fixed dimensions: mostly all-int cell address + indices INTO the cell array
                if rng.chance(0.75):
                    op["idx"] = [{"i": rng.randint(0, d - 1) if rng.chance(0.9) else rng.choice([-1, d])} for d in shape]
                else:
                    op["idx"] = gen_idx(rng, shape, True, exact=True)
                op["idx"] = op["idx"] + gen_extras(rng, ints_only=False)
            if kind == "field_get":
                op["f"] = rng.choice(fields) if fields and rng.chance(0.9) else "nope"
            if kind != "get_data" and len(op["idx"]) == 1:
                op["bare"] = rng.chance(0.5)
            return [op]
        if kind == "setitem" and rng.chance(0.08):
            # more indices than fixed dimensions
            if rng.chance(0.8):
                idx = [{"i": rng.randint(0, d - 1) if rng.chance(0.9) else rng.choice([-1, d])} for d in shape] + gen_extras(rng, ints_only=True)
                good = rng.chance(0.85)
                val = {"one": self.value(pre, nf, good=good, nrows=1 if rng.chance(0.7) else None)} if rng.chance(0.9) else \
                    {"many": [self.value(pre, nf, in_list=True)]}
            else:   # multi-cell address: the surplus indices are dropped by zip()
                idx = gen_idx(rng, shape, True, exact=True)
                if not any("s" in ix or ("l" in ix and len(ix["l"]) > 1) for ix in idx) and idx:
                    idx[-1] = {"s": [None, None, None]}
                lists = [py_indices(ix, d) for ix, d in zip(idx, shape)]
                total = int(np.prod([len(l) for l in lists])) if idx else 1
                idx = idx + gen_extras(rng, ints_only=True)
                val = {"many": [self.value(pre, nf, in_list=True) for _ in range(min(total, 30))]} if shape else {"one": self.value(pre, nf)}
            return pre + [{"op": "setitem", "v": vid, "idx": idx, "val": val}]
        if kind in ("setitem", "set_data"):
            idx = gen_idx(rng, shape, valid, exact=(kind == "set_data"))
            full = idx + [{"s": [None, None, None]}] * (len(shape) - len(idx))
            try:
                lists = [py_indices(ix, d) for ix, d in zip(full, shape)]
                total = int(np.prod([len(l) for l in lists]))
            except ValueError:
                lists, total = None, 1
            if kind == "setitem":
                single = not any("s" in ix or ("l" in ix and len(ix["l"]) > 1) for ix in full)
            else:
                single = lists is not None and all(len(l) == 1 for l in lists)
            if not valid and rng.chance(0.3):
                single = not single
            if single:
                val = {"one": self.value(pre, nf, good=valid or rng.chance(0.5))}
            else:
                n = total if (valid or rng.chance(0.6)) else max(0, total + rng.choice([-1, 1]))
                n = min(n, 30)
                badpos = rng.below(n) if (not valid and n and rng.chance(0.6)) else -1
                val = {"many": [self.value(pre, nf, good=(i != badpos), in_list=True) for i in range(n)]}
            op = {"op": kind, "v": vid, "idx": idx, "val": val}
            if kind == "setitem" and len(idx) == 1:
                op["bare"] = rng.chance(0.5)
            return pre + [op]
        if kind == "assign_view":
            # v[dst] = u[src]  with equally shaped selections where possible (the documented idiom)
            src = rng.below(len(w.vecs))
            u = w.vecs[src]
            sidx = gen_idx(rng, list(u.shape), True, exact=False)
            if sidx and all("i" in ix for ix in sidx) and len(sidx) == len(u.shape):
                sidx[0] = {"s": [None, None, None]}
            didx = gen_idx(rng, shape, True, exact=False)
            if didx and not any("s" in ix or ("l" in ix and len(ix["l"]) > 1) for ix in didx) and len(didx) == len(shape):
                didx[-1] = {"s": [None, None, None]}
            newid = len(w.vecs)
            return [{"op": "getitem", "v": src, "idx": sidx}, {"op": "setitem", "v": vid, "idx": didx, "val": {"vec": newid}}]
        if kind in ("field_op", "field_op_gen"):
            f = rng.choice(fields) if fields and (valid or rng.chance(0.5)) else "nope"
            via = rng.choice(["item", "item", "view"])
            return self.field_op_for(vid, f, kind, via)
        return self.ops_rest(kind, vid, v, shape, fields, nf, valid, pre)

    def field_op_for(self, vid, f, kind, via):
        """one field-arithmetic op on field `f` of vector `vid` whose exact simulation stays representable"""
        rng, w = self.rng, self.w
        v = w.vecs[vid]
        if True:
            for attempt in range(8):
                k = rng.weighted([("add", 4), ("sub", 3), ("mul", 3), ("div", 2), ("floordiv", 1), ("mod", 1),
                                  ("pow", 2 if kind == "field_op_gen" else 0)])
                neg = False
                shape_kind = "c" if kind == "field_op" else rng.weighted([("c", 3), ("arr", 4), ("w", 3)])
                if k == "pow":
                    shape_kind = "c" if rng.chance(0.8) else shape_kind
                if shape_kind == "c":
                    if k in ("add", "sub"):
                        c = Fraction(rng.randint(-12, 12), 4)
                    elif k in ("floordiv", "mod"):
                        c = Fraction(rng.choice([1, 2, 3, -2, 4, 6]), rng.choice([1, 2, 4]))
                    elif k == "pow":
                        pc = [c for c in flat_cells(v) if isinstance(c, np.ndarray)]
                        all_int = bool(pc) and all(c.dtype.kind == "i" for c in pc)
                        c = Fraction(rng.choice([2, 2, 1, 0, -1] + ([3, -2, -1] if all_int else [])))
                    else:
                        c = Fraction(rng.choice([-1, 2, -2, 4, 3, Fraction(1, 2), Fraction(-1, 2), Fraction(1, 4), Fraction(3, 2)]))
                    rhs = {"c": fstr(c), "c_int": c.denominator == 1 and (rng.chance(0.6) or (k == "pow" and c in (3, -2)))}
                    neg = k == "pow" and rhs["c_int"] and c < 0
                elif shape_kind == "arr":
                    rowsn = [c.shape[0] for c in flat_cells(v) if isinstance(c, np.ndarray)]
                    n = rng.choice(rowsn) if rowsn and rng.chance(0.8) else rng.choice([0, 1, 2, 3])
                    if rng.chance(0.25):
                        n = 1
                    pick = (lambda: Fraction(rng.choice([1, 2, -1, 3, -2, 4]))) if k in ("div", "floordiv", "mod", "pow") else \
                        (lambda: Fraction(rng.randint(-12, 12), 4))
                    rhs = {"arr": [fstr(pick() if k != "pow" else Fraction(rng.choice([0, 1, 2, 3]))) for _ in range(n)]}
                else:
                    wv = vid if rng.chance(0.6) else rng.below(len(w.vecs))
                    wf = list(w.vecs[wv].fields)
                    rhs = {"w": wv, "wf": rng.choice(wf) if wf and rng.chance(0.92) else "nope"}
                if kind == "field_op":
                    exp = self.gate_field(vid, f, k, {"c": rhs["c"]}, False)
                    if exp is None:
                        continue
                    return [{"op": "field_op", "v": vid, "f": f, "k": k, "c": rhs["c"], "via": via}]
                exp = self.gate_field(vid, f, k, rhs, neg)
                if exp is None:
                    if self.ctx is not None:
                        self.ctx.dist["rejected:field-op-not-exact-or-div0"] += 1
                    continue
                return [{"op": "field_op_gen", "v": vid, "f": f, "k": k, "rhs": rhs, "neg_int_pow": neg, "via": via, "expect": exp}]
            return [{"op": "field_op", "v": vid, "f": f, "k": "add", "c": "0", "via": via}]

    def ops_rest(self, kind, vid, v, shape, fields, nf, valid, pre):
        rng, w = self.rng, self.w
        if kind in ("view_make", "view_use", "kept_mutate", "keep_all", "restore_idiom", "stale_idiom", "populate"):
            return self.ops_kept(kind, vid, v, shape, fields, nf, valid, pre)
        if kind == "set_flattened":
            f = rng.choice(fields) if fields and (valid or rng.chance(0.5)) else "nope"
            total = sum(c.shape[0] for c in flat_cells(v) if isinstance(c, np.ndarray))
            n = total if valid or rng.chance(0.4) else max(0, total + rng.choice([-1, 1, 2]))
            vals = [q(rng) for _ in range(n)] if valid or rng.chance(0.8) else "2d"
            return [{"op": "set_flattened", "v": vid, "f": f, "vals": vals, "via": rng.choice(["method", "setitem"]), "as_list": rng.chance(0.2)}]
        if kind == "writeback":
            return [{"op": "writeback", "v": vid, "f": rng.choice(fields) if fields else "nope"}]
        if kind == "add_fields":
            free = [n for n in NAMES if n not in fields]
            k = rng.weighted([(1, 4), (2, 3), (3, 1), (0, 1)])
            names = rng.sample(free, min(k, len(free)))
            if not valid:
                m = rng.choice(["exists", "dup"])
                if m == "exists" and fields:
                    names = names + [rng.choice(fields)]
                elif names:
                    names = names + [names[0]]
            return [{"op": "add_fields", "v": vid, "names": names, "as_str": rng.chance(0.3), "as_tuple": rng.chance(0.3)}]
        if kind == "remove_fields":
            k = rng.weighted([(1, 5), (2, 3), (3, 1)])
            names = rng.sample(fields, min(k, len(fields))) if fields else []
            if not valid or not names:
                names = names + [rng.choice(["nope", "zz"])]
                if rng.chance(0.3):
                    names = [n for n in names if n not in fields]
            if rng.chance(0.15) and names:
                names = names + [names[0]]
            return [{"op": "remove_fields", "v": vid, "names": rng.shuffle(names), "as_str": rng.chance(0.3)}]
        if kind == "copy":
            return [{"op": "copy", "v": vid}]
        if kind == "meta_set":
            return [{"op": "meta_set", "v": vid, "k": rng.choice(["k", "run", "id"]), "x": rng.randint(0, 9)}]
        # set_data_attr:  v.data = nested list
        lens = list(shape)
        mode = rng.weighted([("ok", 6), ("shallow", 2), ("len", 1), ("baditem", 2)]) if len(shape) > 1 else \
            rng.weighted([("ok", 6), ("len", 1 if shape else 0), ("baditem", 2)])
        if mode == "shallow":
            lens = lens[:1]       # [arr, arr, …] given to a vector with more than one fixed dimension
        elif mode == "len":
            lens[rng.below(len(lens))] += rng.choice([1, -1]) if min(lens) > 1 else 1
        n = 1
        for d in lens:
            n *= d
        items = []
        badpos = rng.below(n) if mode == "baditem" and n else -1
        for i in range(n):
            if i == badpos:
                items.append(self.value(pre, nf, good=False))
            elif rng.chance(0.2) and nf > 0 and mode != "shallow":
                items.append({"lit": {"ncols": nf, "rows": gen_rows(rng, nf, rng.randint(1, 2))}})
            else:
                items.append(self.value(pre, nf))
        return pre + [{"op": "set_data_attr", "v": vid, "lens": lens, "items": items}]


    # ---- objects the caller keeps: held field views, kept flattened arrays; population idioms

    def view_op_for(self, k, via_hint="view"):
        """field arithmetic through the held view number k (the generator simulates it on the field the view NAMES)"""
        hv = self.w.views[k]
        op = self.field_op_for(hv["v"], hv["f"], "field_op_gen", via_hint)[0]
        if op["op"] == "field_op":
            return {"op": "view_op", "w": k, "k": op["k"], "rhs": {"c": op["c"], "c_int": False}, "neg_int_pow": False,
                    "expect": "ok" if hv["f"] in self.w.vecs[hv["v"]].fields else "KeyError"}
        return {"op": "view_op", "w": k, "k": op["k"], "rhs": op["rhs"], "neg_int_pow": op["neg_int_pow"], "expect": op["expect"]}

    def ops_kept(self, kind, vid, v, shape, fields, nf, valid, pre):
        rng, w = self.rng, self.w
        if kind == "view_make":
            return [{"op": "view_make", "v": vid, "f": rng.choice(fields) if fields and (valid or rng.chance(0.5)) else "nope"}]
        if kind == "keep_all":
            return [{"op": "keep_all", "v": vid}]
        if kind == "kept_mutate":
            return [{"op": "kept_mutate", "kept": rng.below(len(w.kept)), "k": rng.choice(["add", "sub", "mul"]), "c": str(rng.choice([1, 2, -1, 3]))}]
        if kind == "view_use":
            k = len(w.views) - 1 - rng.below(min(3, len(w.views))) if rng.chance(0.6) else rng.below(len(w.views))
            hv = w.views[k]
            u = w.vecs[hv["v"]]
            sub = rng.weighted([("flatten", 3 if len(w.kept) < 6 else 0), ("op", 4), ("set", 2), ("restore", 3 if w.kept else 0), ("get", 1.5)])
            if sub == "flatten":
                return [{"op": "view_flatten", "w": k, "via": rng.choice(["method", "method", "asarray"])}]
            if sub == "op":
                return [self.view_op_for(k)]
            if sub == "set":
                total = sum(c.shape[0] for c in flat_cells(u) if isinstance(c, np.ndarray))
                n = total if valid or rng.chance(0.4) else max(0, total + rng.choice([-1, 1, 2]))
                vals = [q(rng) for _ in range(n)] if valid or rng.chance(0.8) else "2d"
                return [{"op": "view_set", "w": k, "vals": vals}]
            if sub == "restore":
                mine = [i for i, kp in enumerate(w.kept) if kp["v"] == hv["v"] and kp["f"] == hv["f"]]
                i = rng.choice(mine) if mine and rng.chance(0.8) else rng.below(len(w.kept))
                return [{"op": "view_restore", "w": k, "kept": i, "vals": [qstr(x) for x in w.kept[i]["copy"].tolist()]}]
            op = {"op": "view_get", "w": k, "idx": gen_idx(rng, list(u.shape), valid, exact=False)}
            if len(op["idx"]) == 1:
                op["bare"] = rng.chance(0.5)
            decorate_forms(rng, dict(op, op="field_get"), len(u.shape))
            return [op]
        if kind == "restore_idiom":
            # F = v[f].flatten(); <field f changes>; v[f].set_flattened(F)  must bring the column back
            if not fields:
                return [{"op": "view_make", "v": vid, "f": "nope"}]
            f = rng.choice(fields)
            k, i = len(w.views), len(w.kept)
            mid = self.field_op_for(vid, f, rng.choice(["field_op", "field_op_gen"]), rng.choice(["item", "view"]))
            if rng.chance(0.3):
                total = sum(c.shape[0] for c in flat_cells(v) if isinstance(c, np.ndarray))
                mid = [{"op": "set_flattened", "v": vid, "f": f, "vals": [q(rng) for _ in range(total)], "via": "method", "as_list": False}]
            cur = np.asarray(v[f].flatten())
            return [{"op": "view_make", "v": vid, "f": f}, {"op": "view_flatten", "w": k, "via": rng.choice(["method", "asarray"])}] + mid + \
                   [{"op": "view_restore", "w": k, "kept": i, "vals": [qstr(x) for x in cur.tolist()]}]
        if kind == "stale_idiom":
            # fv = v[f]; the schema of v changes (a field in FRONT of f is removed / fields are added); fv is used again
            if len(fields) < 2:
                return [{"op": "view_make", "v": vid, "f": fields[0] if fields else "nope"}]
            j = rng.randint(1, len(fields) - 1)
            f = fields[j]
            k = len(w.views)
            if rng.chance(0.8):
                gone = rng.sample(fields[:j], rng.randint(1, min(2, j)))
                if rng.chance(0.15):
                    gone = gone + [f]
                change = {"op": "remove_fields", "v": vid, "names": rng.shuffle(gone), "as_str": False}
            else:
                free = [n for n in NAMES if n not in fields]
                change = {"op": "add_fields", "v": vid, "names": rng.sample(free, 1), "as_str": rng.chance(0.3), "as_tuple": False}
            out = [{"op": "view_make", "v": vid, "f": f}, change, {"op": "view_flatten", "w": k, "via": "method"}]
            still = f not in change["names"] or change["op"] == "add_fields"
            if rng.chance(0.7):
                out.append({"op": "view_op", "w": k, "k": rng.choice(["add", "sub"]), "rhs": {"c": str(rng.choice([1, 2, -1])), "c_int": rng.chance(0.5)},
                            "neg_int_pow": False, "expect": "ok" if still else "KeyError"})
            return out
        # populate: bring the number of populated cells of v to exactly one / all but one / all (single-cell assignments)
        cells = flat_cells(v)
        n = len(cells)
        if n == 0 or not shape:
            return [{"op": "keep_all", "v": vid}]
        want = rng.weighted([(1, 4), (n - 1, 3), (n, 3)])
        unset = [i for i, c in enumerate(cells) if c is None]
        have = n - len(unset)
        todo = rng.shuffle(unset)[:max(0, min(want - have, 8))]
        out = []
        for pos in todo:
            coord = [int(x) for x in np.unravel_index(pos, tuple(shape))]
            if rng.chance(0.5):
                out.append({"op": "setitem", "v": vid, "idx": [{"i": c} for c in coord], "val": {"one": self.value(pre, nf)}})
            else:
                out.append({"op": "set_data", "v": vid, "idx": [{"i": c} for c in coord], "val": {"one": self.value(pre, nf)}})
        if not out:
            return [{"op": "view_make", "v": vid, "f": rng.choice(fields) if fields else "nope"}]
        return pre + out


# ---------------------------------------------------------------------------------------

def op_signature(w, before, op, res):
    k = op["op"]
    tgt = op.get("v")
    nd = len(before["vecs"][tgt]["shape"]) if tgt is not None and tgt < len(before["vecs"]) else 0
    kinds = "".join(sorted({("i" if "i" in ix else "s" if "s" in ix else "l") for ix in op.get("idx", [])}))
    val = op.get("val") or {}
    vk = "one" if "one" in val else "many" if "many" in val else "vec" if "vec" in val else "-"
    shared = False
    if tgt is not None and tgt < len(before["vecs"]):
        mine = [id(c) for c in before["vecs"][tgt]["cells"] if c is not None]
        others = {id(c) for i, b in enumerate(before["vecs"]) if i != tgt for c in b["cells"] if c is not None}
        shared = len(set(mine)) != len(mine) or bool(set(mine) & others)
    return (k, res.get("err", "ok"), nd, kinds, vk, shared)


def setter_check(ctx, drv, w, req, done):
    """the property setters `fields` / `units` / `shape` are NOT in the property's operation list; they are
    modelled outside the op alphabet and tied to the code here: one setter call ends a sequence, only its
    outcome and the resulting shape / fields / units are compared (no predicate: nothing is claimed)"""
    v = w.vecs[req["v"]]
    try:
        if req["attr"] == "shape":
            v.shape = tuple(req["value"])
        elif req["attr"] == "fields":
            v.fields = list(req["value"])
        else:
            v.units = None if req["value"] is None else list(req["value"])
        res = {"ok": None}
    except Exception as e:  # noqa
        res = {"err": err_name(e)}
    m = drv.ask(dict(req, op="set_attr"))
    impl = {"r": res, "vec": {"shape": list(v.shape), "fields": list(v.fields), "units": list(v.units)}}
    ctx.count()
    ctx.dist[f"setter:{req['attr']}:{res.get('err', 'ok')}"] += 1
    if m != json.loads(json.dumps(impl)):
        ctx.disagree("vector-setters", {"ops": list(done), "setter": req}, m, impl, note=f"property setter {req['attr']}")


def gen_setter(rng, w):
    if not w.vecs:
        return None
    vid = rng.below(len(w.vecs))
    v = w.vecs[vid]
    attr = rng.choice(["fields", "units", "shape"])
    nf = len(v.fields)
    if attr == "fields":
        n = rng.choice([nf, nf, max(nf - 1, 0), nf + 1])
        val = rng.sample(NAMES, min(n, len(NAMES)))
        if val and rng.chance(0.2):
            val = val + [val[0]]
    elif attr == "units":
        val = None if rng.chance(0.15) else [rng.choice(UNITS) for _ in range(rng.choice([nf, nf, nf + 1, max(nf - 1, 0)]))]
    else:
        val = [rng.choice([1, 2, 3, 5, 0, -1]) for _ in range(rng.randint(0, 3))]
    return {"v": vid, "attr": attr, "value": val}


def run_ops(ctx, drv, ops_iter, record, setter_rng=None):
    """execute ops (an iterator that may look at the world) on the real class, the oracle and the model"""
    w = World()
    tie = Tie()
    setter = None
    if drv is not None:
        drv.ask({"op": "reset"})
    done = []
    for op in ops_iter(w):
        if not resolvable(w, op):
            ctx.dist["skipped:unresolvable"] += 1
            continue
        done.append(op)
        if op["op"] == "alloc":
            # the caller creates an array: nothing observable changes in any vector; the new pool entry is
            # paired and its contents compared at the next full comparison
            apply_real(w, op)
            ctx.dist["op:alloc"] += 1
            if drv is not None:
                m = drv.ask(dict(op, obs=False))
                if "r" not in m:
                    raise RuntimeError(f"driver error {m} on {op}")
            continue
        case = {"ops": list(done)}
        try:
            before = snapshot(w)
        except Structural:
            break
        before["pool"] = list(w.pool)
        eop = effective(w, op)
        res = apply_real(w, op)
        if "err" in res and res["err"].startswith("Other:"):
            ctx.pred_fail(f"unexpected-exception:{op['op']}:{res['err']}", f"{op['op']} raised {res['err']}", case, observed=res,
                          required="a result or ValueError/TypeError/IndexError/KeyError")
        ctx.count()
        k = op["op"]
        ctx.dist[f"op:{k}"] += 1
        ctx.dist["outcome:" + res.get("err", "ok")] += 1
        sop = dict(eop, op=k)
        if "v" in sop:
            sg = op_signature(w, before, sop, res)
            ctx.dist["target-holds-shared-array:" + ("yes" if sg[5] else "no")] += 1
            ctx.dist[f"target-dims:{len(before['vecs'][sop['v']]['shape'])}"] += 1
            ctx.dist[f"target-fields:{len(before['vecs'][sop['v']]['fields'])}"] += 1
            bc_ = before["vecs"][sop["v"]]["cells"]
            npop = sum(c is not None for c in bc_)
            ctx.dist["target-populated-cells:" + ("none" if npop == 0 else "exactly-one" if npop == 1 else "all" if npop == len(bc_)
                                                  else "all-but-one" if npop == len(bc_) - 1 else "some")] += 1
            if k.startswith("view_") and k != "view_make":
                ctx.dist["held-view:" + ("field-still-there" if sop.get("f") in before["vecs"][sop["v"]]["fields"] else "field-gone")
                         + (":index-moved" if sop.get("f") in before["vecs"][sop["v"]]["fields"] and
                            w.views[op["w"]].get("j0") != before["vecs"][sop["v"]]["fields"].index(sop["f"]) else "")] += 1
        for ix in op.get("idx", []):
            ctx.dist["index:" + ("int" if "i" in ix else "slice" if "s" in ix else "list")] += 1
            if "form" in ix:
                ctx.dist["index-form:" + ix["form"]] += 1
        if any(c is not None for b in before["vecs"] for c in b["cells"]) or k in ("from_data", "setitem", "set_data"):
            ctx.mark(op_signature(w, before, sop, res))
        if k == "field_op_gen":
            rk = "scalar" if "c" in op["rhs"] else "ndarray" if "arr" in op["rhs"] else "fieldview"
            ctx.dist[f"field-operand:{rk}:{op['k']}:{res.get('err', 'ok')}"] += 1
        if "v" in sop and sop["v"] < len(before["vecs"]):
            pc = [c for c in before["vecs"][sop["v"]]["cells"] if isinstance(c, np.ndarray)]
            if pc and k in ("field_op", "field_op_gen", "set_flattened", "add_fields", "remove_fields", "copy", "view_op", "view_set", "view_restore"):
                kinds = {c.dtype.kind for c in pc}
                ctx.dist["target-dtypes:" + ("int64" if kinds == {"i"} else "float64" if kinds == {"f"} else "mixed")] += 1
            if "idx" in op and len(op["idx"]) > len(before["vecs"][sop["v"]]["shape"]):
                ctx.dist[f"over-long-index:{k}:{res.get('err', 'ok')}"] += 1
        cont = check_op(ctx, w, before, eop, res, case)
        if not cont:
            return w, done
        check_kept(ctx, w, op, res, case)
        if drv is not None:
            m = drv.ask({"op": "nop"} if k == "keep_all" else op)
            if "err" in m and "r" not in m:
                raise RuntimeError(f"driver error {m} on {op}")
            if m["r"] != json.loads(json.dumps(res)):
                ctx.disagree("vector-ops", case, m["r"], res, note=f"result of op #{len(done) - 1} {k}")
                return w, done
            try:
                same = compare_state(ctx, tie, w, m["obs"], case, note=f"state after op #{len(done) - 1} {k}")
            except Structural as e:
                ctx.disagree("vector-ops", case, "well-formed nested data", str(e), note="real object no longer observable")
                same = False
            if not same:
                return w, done
            for r in m["obs"]["heap"]:
                ctx.stat_max("max_rows_in_cell", len(r[2]))
    if drv is not None and w.vecs and setter_rng is not None and setter_rng.chance(0.3):
        setter = gen_setter(setter_rng, w)
        setter_check(ctx, drv, w, setter, done)
    if record:
        ctx.sample({"ops": done[:8], "n_ops": len(done), "final_vectors": [{"shape": list(v.shape), "fields": list(v.fields)} for v in w.vecs][:4]}, limit=3)
    return w, done


# ---------------------------------------------------------------------------------------
# argument forms in front of `from_shape` (Model/VectorFront.lean): the type tests of validate_shape / validate_fields /
# validate_num_fields / validate_vector_units and the places where num_fields is only compared

def _front_py(j, what):
    """the Python object for an argument-form request"""
    if j is None:
        return None
    if what == "shape":
        if "tuple" in j:
            return tuple(_front_py(d, "dim") for d in j["tuple"])
        return {"list": [2, 3], "int": 3, "none": None, "nparray": np.array([2, 3])}[j["not_tuple"]]
    if what in ("dim", "num"):
        if "i" in j:
            return int(j["i"])
        if "b" in j:
            return bool(j["b"])
        if "like" in j:
            return float(j["like"]) if j.get("as") == "float" else np.int64(j["like"])
        return {"float": 2.0, "np": np.int64(2), "str": "2", "none": None}[j["o"]]
    if "seq" in j:
        return tuple(j["seq"]) if j.get("as") == "tuple" else list(j["seq"])
    return {"str": "xy", "set": {"x", "y"}, "dict": {"x": 1, "y": 2}}[j["not_seq"]]


def front_cases():
    T = lambda *ds: {"tuple": list(ds)}   # noqa: E731
    I = lambda n: {"i": n}                # noqa: E731
    shapes = [T(I(2)), T(I(2), I(3)), T({"b": True}, I(2)), T(I(2), {"b": False}), T(I(2), I(0), {"o": "float"}),
              T({"o": "float"}, I(0)), T({"o": "np"}, I(3)), T({"o": "str"}), T(), {"not_tuple": "list"}, {"not_tuple": "int"},
              {"not_tuple": "none"}, {"not_tuple": "nparray"}, T(I(-1)), T(I(2), {"o": "none"}), T(I(3), I(1), I(2), I(2))]
    nums = [None, I(2), I(0), I(-1), {"b": True}, {"b": False}, {"like": 2, "as": "float"}, {"like": 2, "as": "np"}, {"o": "str"}, I(3),
            {"like": 1, "as": "np"}]
    fields = [None, {"seq": ["x", "y"], "as": "list"}, {"seq": ["x", "y"], "as": "tuple"}, {"seq": ["x", "x"], "as": "list"},
              {"not_seq": "str"}, {"not_seq": "set"}, {"seq": [], "as": "list"}, {"seq": ["x"], "as": "list"}]
    units = [None, {"seq": ["m", "s"], "as": "list"}, {"seq": ["m", "s"], "as": "tuple"}, {"not_seq": "str"}, {"seq": ["m"], "as": "list"},
             {"not_seq": "dict"}]
    out = []
    for sh in shapes:
        for nf, fs in ((None, fields[1]), (I(2), None), (I(2), fields[2]), (None, None)):
            out.append({"shape": sh, "num_fields": nf, "fields": fs, "units": None})
    for nf in nums:
        for fs in fields:
            out.append({"shape": shapes[0], "num_fields": nf, "fields": fs, "units": None})
    for un in units:
        for nf, fs in ((None, fields[1]), (I(2), None), (I(2), fields[3]), ({"o": "str"}, None), (None, fields[4])):
            out.append({"shape": shapes[1], "num_fields": nf, "fields": fs, "units": un})
    # the first offending argument decides: bad shape + bad fields + bad units at once
    out.append({"shape": {"not_tuple": "list"}, "num_fields": {"o": "str"}, "fields": {"not_seq": "str"}, "units": {"not_seq": "str"}})
    out.append({"shape": T(I(2), I(0)), "num_fields": None, "fields": {"not_seq": "set"}, "units": {"not_seq": "str"}})
    return out


def check_front_case(ctx, drv, req):
    Vector = _vector_cls()
    case = {"front": req}
    ctx.count()
    try:
        with contextlib.redirect_stdout(io.StringIO()):
            v = Vector.from_shape(shape=_front_py(req["shape"], "shape"), num_fields=_front_py(req["num_fields"], "num"),
                                  fields=_front_py(req["fields"], "seq"), units=_front_py(req["units"], "seq"))
        res = {"ok": {"vec": 0}}
    except Exception as e:  # noqa
        v, res = None, {"err": err_name(e)}
    ctx.dist["front:" + res.get("err", "ok")] += 1
    ctx.mark(("front", json.dumps(req, sort_keys=True)))
    if v is not None:
        # the property on the real object: creation from shape gives unique fields, one unit per field, positive integer
        # dimensions and one (unset) cell per index
        try:
            cells = flat_cells(v)
            okp = (len(set(v.fields)) == len(v.fields) and len(v.units) == len(v.fields) and all(isinstance(d, int) and d > 0 for d in v.shape)
                   and len(cells) == int(np.prod([int(d) for d in v.shape])) and all(c is None for c in cells))
            seen = {"shape": [int(d) for d in v.shape], "fields": list(v.fields), "units": list(v.units)}
        except Exception as e:  # noqa
            okp, seen = False, f"{type(e).__name__}: {e}"
        if not okp:
            ctx.pred_fail("front-structure:from_shape", "from_shape accepted the arguments but the new vector is not well-formed", case,
                          observed=seen, required="unique fields, one unit per field, positive int dims, one unset cell per index")
    if drv is None:
        return
    drv.ask({"op": "reset"})
    m = drv.ask(dict(req, op="from_shape_front"))
    if "r" not in m:
        raise RuntimeError(f"driver error {m} on {req}")
    if m["r"] != res:
        ctx.disagree("vector-front", case, m["r"], res, note="outcome of from_shape on argument forms")
        return
    if v is not None:
        mv = m["obs"]["vecs"][-1]
        mine = {"shape": mv["shape"], "fields": mv["fields"], "units": mv["units"], "cells": len(mv["cells"])}
        impl = {"shape": [int(d) for d in v.shape], "fields": list(v.fields), "units": list(v.units), "cells": len(flat_cells(v))}
        if mine != impl:
            ctx.disagree("vector-front", case, mine, impl, note="vector made by from_shape on argument forms")


# public signatures of the anchored API (name, kind, default) — pinned: a changed default (`metadata={}` was a real
# defect of this class) or a dropped / renamed public parameter is a broken tie, not a silent change
SIGNATURES = {
    "Vector.from_shape": [["shape", "POSITIONAL_OR_KEYWORD", "<none>"], ["num_fields", "POSITIONAL_OR_KEYWORD", "None"], ["fields", "POSITIONAL_OR_KEYWORD", "None"], ["units", "POSITIONAL_OR_KEYWORD", "None"], ["name", "POSITIONAL_OR_KEYWORD", "None"]],
    "Vector.from_data": [["data", "POSITIONAL_OR_KEYWORD", "<none>"], ["num_fields", "POSITIONAL_OR_KEYWORD", "None"], ["fields", "POSITIONAL_OR_KEYWORD", "None"], ["units", "POSITIONAL_OR_KEYWORD", "None"], ["name", "POSITIONAL_OR_KEYWORD", "None"]],
    "Vector.get_data": [["self", "POSITIONAL_OR_KEYWORD", "<none>"], ["indices", "VAR_POSITIONAL", "<none>"]],
    "Vector.set_data": [["self", "POSITIONAL_OR_KEYWORD", "<none>"], ["value", "POSITIONAL_OR_KEYWORD", "<none>"], ["indices", "VAR_POSITIONAL", "<none>"]],
    "Vector.add_fields": [["self", "POSITIONAL_OR_KEYWORD", "<none>"], ["new_fields", "POSITIONAL_OR_KEYWORD", "<none>"]],
    "Vector.remove_fields": [["self", "POSITIONAL_OR_KEYWORD", "<none>"], ["fields_to_remove", "POSITIONAL_OR_KEYWORD", "<none>"]],
    "Vector.copy": [["self", "POSITIONAL_OR_KEYWORD", "<none>"]],
    "Vector.flatten": [["self", "POSITIONAL_OR_KEYWORD", "<none>"]],
    "_FieldView.flatten": [["self", "POSITIONAL_OR_KEYWORD", "<none>"]],
    "_FieldView.set_flattened": [["self", "POSITIONAL_OR_KEYWORD", "<none>"], ["values", "POSITIONAL_OR_KEYWORD", "<none>"]],
}
NO_MUTABLE_DEFAULT = ["Vector.__init__", "Vector.from_shape", "Vector.from_data", "Vector.__getitem__", "Vector.__setitem__", "_FieldView.__init__",
                      "nested_list", "validate_shape", "validate_fields", "validate_num_fields", "validate_vector_units",
                      "validate_vector_data_for_inference", "validate_vector_data"]


def check_signatures(ctx):
    import inspect
    from quantem.core.datastructures import vector as vmod
    from quantem.core.utils import validators as val

    def resolve(name):
        obj = vmod if not name.startswith("validate") else val
        for part in name.split("."):
            obj = getattr(obj, part)
        return obj
    for name in list(SIGNATURES) + NO_MUTABLE_DEFAULT:
        ctx.count()
        ctx.dist["signature-pins"] += 1
        try:
            params = list(inspect.signature(resolve(name)).parameters.values())
        except Exception as e:  # noqa
            ctx.disagree("vector-signatures", {"function": name}, "present", f"{type(e).__name__}: {e}", note="anchored function missing")
            continue
        got = [[p.name, p.kind.name, "<none>" if p.default is inspect._empty else repr(p.default)] for p in params]
        if name in SIGNATURES and got != SIGNATURES[name]:
            ctx.disagree("vector-signatures", {"function": name}, SIGNATURES[name], got, note="public signature / defaults changed")
        bad = [p.name for p in params if isinstance(p.default, (list, dict, set, np.ndarray))]
        if bad:
            ctx.disagree("vector-signatures", {"function": name}, "no mutable default argument", bad,
                         note="a mutable default is shared by every call (all vectors would share it)")


def run(ctx):
    from qv.driver import Driver
    check_signatures(ctx)
    drv = Driver("C11")
    try:
        for req in front_cases():
            check_front_case(ctx, drv, req)
        # FIXED histories (independent of VERIF_SEED): see c11_fixed.py
        for name, ops in c11_fixed.fixed_histories():
            w, done = run_ops(ctx, drv, c11_fixed.script_iter(ops), record=False)
            ctx.dist[f"fixed-history:{name}:ops-executed"] += sum(1 for o in done if o["op"] != "alloc")
            ctx.dist["fixed-histories"] += 1
        nseq = min(ctx.n(1000, 10000), 25000)      # the 10x failing-input search is capped (time budget)
        if os.environ.get("C11_ONLY_FIXED"):       # development aid: judge the fixed block alone
            nseq = 0
        maxops = 40 if ctx.thorough() else 20
        for sidx in range(nseq):
            rng = ctx.rng.fork(sidx)
            nops = rng.randint(5, maxops)
            max_dim = 4 if (ctx.thorough() and rng.chance(0.2)) else 3

            def it(w, rng=rng, nops=nops, max_dim=max_dim):
                g = Gen(rng, w, max_dim, ctx)
                n = 0
                while n < nops:
                    for op in g.ops():
                        n += op["op"] != "alloc"
                        yield op
            run_ops(ctx, drv, it, record=(sidx < 3), setter_rng=rng.fork(7))
    finally:
        drv.close()


def replay(ctx, rep):
    from qv.driver import Driver
    case = rep.get("case") or (rep.get("correspondence_disagreements") or [{}])[0].get("case")
    if not case:
        return False
    drv = Driver("C11")
    try:
        if "front" in case:
            check_front_case(ctx, drv, case["front"])
            return True
        run_ops(ctx, drv, lambda w: iter(case["ops"]), record=False)
    finally:
        drv.close()
    return True
