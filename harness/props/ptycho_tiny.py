"""Tiny, fast, deterministic ptychography problems built from the real quantem classes.

Reusable by any property check that needs a *real* ``Ptychography`` object
(``Ptychography.from_models`` + ``PtychographyDatasetRaster`` + ``ObjectPixelated`` +
``ProbePixelated`` + ``DetectorPixelated``) without files, plots or a GPU.
Depends only on numpy, torch and quantem (imported lazily, so importing this module is free).

Typical use::

    from props import ptycho_tiny as pt
    prob = pt.make_ptycho(scan=(4, 3), roi=(8, 8), seed=0, rng_seed=7)   # preprocessed, CPU, float32
    with pt.no_gc():                                                   # reconstruct() calls gc.collect() twice (0.25 s)
        rec = pt.record_batches(prob, batch_size=4, num_iters=1, freeze=True)
    rec[0]["indices"], rec[0]["loss"], rec[0]["grads"]["object"]

Geometry (all sizes in pixels unless noted): scan ``(sr, sc)`` positions on a raster with
step ``step_px`` object pixels; detector / ROI ``(R0, R1)``; the reconstruction pixel size is
1 Å (``reciprocal sampling = 1/R`` Å⁻¹), so scan sampling = ``step_px`` Å.  The library
enlarges the object padding until the object shape is a multiple of 8 and wraps patches
periodically; read the actual geometry back from the returned object
(``ptycho.obj_shape_full``, ``ptycho.obj_padding_px``, ``ptycho.dset.patch_indices``).

The simulated intensities follow the library's own forward convention closely enough to give a
well-behaved loss landscape (patch · probe → |FFT|² → fftshift), but *this module does not
claim the data are a zero of the library's loss* — that is property C02's business.
"""
import contextlib

PROBE_ENERGY = 300e3


def _np():
    import numpy as np
    return np


def as_pair(x):
    if isinstance(x, (tuple, list)):
        return int(x[0]), int(x[1])
    return int(x), int(x)


def tiny_probe(roi, defocus=20.0, cutoff=0.3, num_probes=1):
    """complex probe array of shape (num_probes, R0, R1), corner centred, unit total intensity
    (higher modes: the first mode multiplied by a linear phase ramp and attenuated)."""
    np = _np()
    r0, r1 = as_pair(roi)
    qr = np.fft.fftfreq(r0, 1.0)
    qc = np.fft.fftfreq(r1, 1.0)
    q2 = qr[:, None] ** 2 + qc[None, :] ** 2
    ap = (np.sqrt(q2) < cutoff).astype(float)
    p = np.fft.ifft2(ap * np.exp(-1j * defocus * q2))
    p /= np.sqrt((np.abs(p) ** 2).sum())
    modes = [p]
    for m in range(1, num_probes):
        ramp = np.exp(2j * np.pi * m * (np.arange(r0)[:, None] / r0 + np.arange(r1)[None, :] / r1))
        modes.append(p * ramp * (0.5 ** m))
    return np.stack(modes).astype(np.complex64)


def tiny_intensities(scan=(4, 3), roi=(8, 8), seed=0, step_px=2, counts=1000.0, phase_sigma=0.3):
    """Simulated 4-D intensities, float32, shape (sr, sc, R0, R1), strictly positive.
    Returns (intensities, truth) with truth = dict(obj=…, probe=…, step_px=…)."""
    np = _np()
    sr, sc = as_pair(scan)
    r0, r1 = as_pair(roi)
    rng = np.random.default_rng(1000 + seed)
    on0, on1 = step_px * (sr - 1) + 2 * r0, step_px * (sc - 1) + 2 * r1
    obj = np.exp(1j * phase_sigma * rng.standard_normal((on0, on1)))
    probe = tiny_probe(roi)[0]
    ir = np.fft.fftfreq(r0, 1 / r0).astype(int)
    ic = np.fft.fftfreq(r1, 1 / r1).astype(int)
    out = np.zeros((sr, sc, r0, r1), np.float32)
    for i in range(sr):
        for j in range(sc):
            patch = obj[(r0 + step_px * i + ir)[:, None] % on0, (r1 + step_px * j + ic)[None, :] % on1]
            out[i, j] = np.fft.fftshift(np.abs(np.fft.fft2(patch * probe)) ** 2) * counts + 1e-3
    return out, {"obj": obj, "probe": probe, "step_px": step_px}


def make_dataset(scan=(4, 3), roi=(8, 8), seed=0, step_px=2, com_fit_function="constant", vectorized=True,
                 detector_mask=None, intensities=None, learn_descan=True, learn_scan_positions=True):
    """A preprocessed ``PtychographyDatasetRaster`` (verbose 0, no plots, rotation forced to 0)."""
    from quantem.core.datastructures.dataset4dstem import Dataset4dstem
    from quantem.diffractive_imaging.dataset_models import PtychographyDatasetRaster
    r0, r1 = as_pair(roi)
    if intensities is None:
        intensities, _ = tiny_intensities(scan, roi, seed, step_px)
    ds = Dataset4dstem.from_array(array=intensities, sampling=(float(step_px), float(step_px), 1.0 / r0, 1.0 / r1),
                                  units=("A", "A", "A^-1", "A^-1"))
    pd = PtychographyDatasetRaster.from_dataset4dstem(ds, detector_mask=detector_mask, verbose=0,
                                                      learn_descan=learn_descan, learn_scan_positions=learn_scan_positions)
    pd.preprocess(com_fit_function=com_fit_function, plot_rotation=False, plot_com=False, probe_energy=PROBE_ENERGY,
                  force_com_rotation=0, force_com_transpose=False, vectorized=vectorized)
    return pd


def make_rng(seed, form="int"):
    """the seed in one of the forms ``RNGMixin.rng`` accepts: the int itself, a fresh
    ``np.random.default_rng(seed)`` (its SeedSequence entropy is the seed, up to 128 bit and more) or a fresh
    ``torch.Generator().manual_seed(seed)`` (seed < 2**64).  None → None (unseeded)."""
    if seed is None or form == "int":
        return seed
    if form == "np_generator":
        import numpy as np
        return np.random.default_rng(seed)
    if form == "torch_generator":
        import torch
        return torch.Generator().manual_seed(int(seed))
    raise ValueError(form)


def make_ptycho(scan=(4, 3), roi=(8, 8), seed=0, rng_seed=7, num_probes=1, obj_type="complex", obj_init="uniform",
                val_ratio=0.0, val_mode="grid", step_px=2, detector_mask=None, obj_padding_px=(0, 0), rng_form="int", ptycho_rng_seed=None):
    """A preprocessed real ``Ptychography`` object on CPU (float32/complex64), verbose 0.

    ``rng_seed`` is handed to every ``rng=`` argument (``Ptychography.from_models``, the object
    model and the probe model — mixed-state probes draw their random phase ramps from the probe
    model's own generator); None → unseeded.
    ``rng_form`` selects the form in which the seed reaches the ``rng=`` arguments (see ``make_rng``):
    "int" | "np_generator" | "torch_generator"; each consumer gets its own fresh object.
    ``ptycho_rng_seed`` (optional) replaces ``rng_seed`` for ``Ptychography.from_models`` only (the object and probe
    models keep ``rng_seed``) — used to exercise the ``rng`` setter afterwards.
    ``obj_init``: "uniform" | "random" (ObjectPixelated.from_uniform / from_random)."""
    import warnings
    from quantem.diffractive_imaging.detector_models import DetectorPixelated
    from quantem.diffractive_imaging.object_models import ObjectPixelated
    from quantem.diffractive_imaging.probe_models import ProbePixelated
    from quantem.diffractive_imaging.ptychography import Ptychography
    pd = make_dataset(scan, roi, seed, step_px, detector_mask=detector_mask)
    if obj_init == "random":
        om = ObjectPixelated.from_random(num_slices=1, obj_type=obj_type, slice_thicknesses=1, rng=make_rng(rng_seed, rng_form))
    else:
        om = ObjectPixelated.from_uniform(num_slices=1, obj_type=obj_type, slice_thicknesses=1, rng=make_rng(rng_seed, rng_form))
    with warnings.catch_warnings():
        warnings.simplefilter("ignore")
        pm = ProbePixelated.from_array(num_probes=num_probes, probe_array=tiny_probe(roi, num_probes=num_probes),
                                       probe_params={"energy": PROBE_ENERGY, "semiangle_cutoff": 20}, rng=make_rng(rng_seed, rng_form))
        p = Ptychography.from_models(dset=pd, obj_model=om, probe_model=pm, detector_model=DetectorPixelated(),
                                     rng=make_rng(rng_seed if ptycho_rng_seed is None else ptycho_rng_seed, rng_form), verbose=0)
        p.preprocess(obj_padding_px=obj_padding_px, val_ratio=val_ratio, val_mode=val_mode, plot_rotation=False,
                     plot_com=False)
    return p


def sgd_params(lr_obj=0.1, lr_probe=0.1):
    """fresh optimizer_params dict (reconstruct() mutates what it is given)"""
    return {"object": {"type": "sgd", "lr": lr_obj}, "probe": {"type": "sgd", "lr": lr_probe}}


@contextlib.contextmanager
def no_gc():
    """``Ptychography.reconstruct`` ends with two ``gc.collect()`` calls (≈ 0.25 s together);
    inside this context they are no-ops.  Nothing else is touched."""
    import quantem.diffractive_imaging.ptychography as mod

    class _Gc:
        @staticmethod
        def collect(*a, **k):
            return 0
    saved = mod.gc
    mod.gc = _Gc
    try:
        yield
    finally:
        mod.gc = saved


def record_batches(ptycho, batch_size, num_iters=1, freeze=True, reset=True, loss_type="l2_amplitude", autograd=True,
                   optimizer_params=None, constraints=None, keep_optimizers=False):
    """Run the real ``reconstruct`` loop and record every training batch.

    Instance-level wrappers (nothing in /repo is changed) around ``error_estimate`` (records
    the indices it was called with and the loss it returned) and ``step_optimizers`` (records
    ``.grad`` of the object and probe parameters right after ``backward``).  With
    ``freeze=True`` the optimizer step itself is skipped, so the parameters stay at their
    initial values and batches of different runs are comparable.  Validation batches (called
    under ``torch.no_grad``) are recorded with ``"val": True`` and no gradients.

    ``keep_optimizers=True`` passes ``optimizer_params=None`` to ``reconstruct`` (continue a run with
    the optimizers it already has) instead of installing fresh SGD optimizers.

    Returns a list of dicts ``{"iter", "indices", "loss", "val", "grads": {"object", "probe"}}``
    (numpy arrays, gradients as complex128 / float64 copies).
    """
    import numpy as np
    import torch
    rec = []
    pending = {}
    real_err = ptycho.error_estimate
    real_step = ptycho.step_optimizers

    def err(pred, batch_indices, loss_type="l2_amplitude"):
        loss, targets = real_err(pred, batch_indices, loss_type=loss_type)
        entry = {"iter": len(ptycho._iter_losses), "indices": np.asarray(batch_indices).astype(int).tolist(),
                 "loss": float(loss.detach().double().item()), "val": not torch.is_grad_enabled(), "grads": None}
        rec.append(entry)
        if torch.is_grad_enabled():
            pending["e"] = entry
        return loss, targets

    def step():
        e = pending.pop("e", None)
        if e is not None:
            g = {}
            og = ptycho.obj_model._obj.grad
            g["object"] = None if og is None else og.detach().cpu().numpy().astype(np.complex128 if og.is_complex() else np.float64)
            pg = getattr(ptycho.probe_model, "_probe", None)
            pg = None if pg is None else pg.grad
            g["probe"] = None if pg is None else pg.detach().cpu().numpy().astype(np.complex128 if pg.is_complex() else np.float64)
            e["grads"] = g
        if not freeze:
            real_step()

    ptycho.error_estimate = err
    ptycho.step_optimizers = step
    try:
        ptycho.reconstruct(num_iters=num_iters, reset=reset, batch_size=batch_size, loss_type=loss_type, autograd=autograd,
                           optimizer_params=None if keep_optimizers else (optimizer_params if optimizer_params is not None else sgd_params()),
                           constraints=constraints if constraints is not None else {})
    finally:
        del ptycho.error_estimate
        del ptycho.step_optimizers
    return rec
