"""C01 extension streams (growth round 5): HISTORIES of public calls on shared targets
(save / load / print_file / overwrite / rejected and raising calls / in-memory mutation),
the argument checks of save(), and `_is_numeric_scalar` — each compared with
Model/SerializeExt.lean through Driver/C01.lean, and judged by the property's own equality
(`ser_common.prop_equal`) against an independent reference kept by the harness."""
import contextlib
import io
import os
import pathlib
import shutil

from . import ser_common as sc

TARGET_NAMES = ["A", "B.zip", "C", "D.zip", "E.dat", ".hid", "F.", "G.v2"]
LEVELS_OK = [None, 0, 1, 2, 3, 4, 5, 6, 7, 8, 9]
LEVELS_BAD = [-1, 10, 99]


def _scratch(tag):
    d = os.path.join(os.environ.get("QVERIF_SCRATCH", "/tmp"), "c01x", tag)
    shutil.rmtree(d, ignore_errors=True)
    os.makedirs(d)
    return d


# ---- independent reference of where a save goes / whether it is admissible (quantifier text of the
# property + the documented behaviour of save(): ".zip" is appended, mode "w" never overwrites) ----
def ref_store(name, store):
    if store == "auto":
        return "zip" if name.endswith(".zip") else "dir"
    return store


def ref_final(name, store):
    st = ref_store(name, store)
    return name + ".zip" if st == "zip" and not name.endswith(".zip") else name


def ref_admissible(name, mode, store, level, exists):
    """None if the call is inside the property's quantifier (must succeed), else the reason it is not"""
    if level is not None and not (0 <= level <= 9):
        return "level"
    st = ref_store(name, store)
    if exists and mode != "o":
        return "exists"
    if st not in ("zip", "dir"):
        return "store"
    if st == "dir" and os.path.splitext(ref_final(name, store))[1]:
        return "dir-ext"
    return None


# ---- deterministic in-memory mutations -----------------------------------------------------------
def _menu(k):
    import numpy as np
    import torch
    from . import ser_classes
    sub = ser_classes.SB.__new__(ser_classes.SB)
    sub.q = [k, "s"]
    menu = [0, None, "", [], (), {}, set(), np.zeros((0, 2)), np.array(5.5), [1, 2.5], ["a", None], {"k": [1]},
            pathlib.Path("p/q"), torch.tensor([1.0, 2.0]), sub, False, 0.0, np.arange(3), (1,), {"a"}, np.float32(0.5)]
    return menu[k % len(menu)]


def mutate(obj, how, k):
    import numpy as np
    names = list(vars(obj))
    if how == "drop" and names:
        delattr(obj, names[k % len(names)])
    elif how == "add":
        setattr(obj, f"new{k % 3}", _menu(k))
    elif how == "replace" and names:
        setattr(obj, names[k % len(names)], _menu(k // 3))
    elif how == "inplace":
        for n in names:
            v = getattr(obj, n)
            if isinstance(v, list):
                v.append("x%d" % k)
                return
            if isinstance(v, dict):
                v["added"] = k
                return
            if isinstance(v, np.ndarray) and v.size and v.flags.writeable and v.dtype.kind in "iuf":
                with np.errstate(all="ignore"):
                    v.flat[0] = v.flat[0] + 1
                return
        setattr(obj, "new0", _menu(k))


def scramble(obj):
    """mutate a LOADED object in place as far as possible (later loads must not see it)"""
    import numpy as np
    for n in list(vars(obj)):
        v = getattr(obj, n)
        if isinstance(v, np.ndarray) and v.size and v.flags.writeable and v.dtype.kind in "iufb":
            v[...] = 0
        elif isinstance(v, list):
            v.append("scrambled")
        elif isinstance(v, dict):
            v["scrambled"] = 1
        elif isinstance(v, set):
            v.add("scrambled")
    names = list(vars(obj))
    if names:
        delattr(obj, names[0])
    obj.scrambled = True


# ---- history generator -----------------------------------------------------------------------------
def scripted(i):
    """fixed histories, enumerated in rotation (detection of a read-between-two-writes defect must not
    depend on the seed): store x reader x overwrite form"""
    store = ["zip", "dir"][i % 2]
    reader = ["load", "inspect"][(i // 2) % 2]
    T = {"zip": [1, 0, 4][(i // 4) % 3], "dir": [0, 2, 5][(i // 4) % 3]}[store]     # B.zip / A(+.zip) / E.dat(+.zip) ; A / C / .hid
    ops = [["save", 0, T, "w", store, LEVELS_OK[i % 11], "kw", False],
           [reader, T, False],
           ["save", 1, T, "o", store, LEVELS_OK[(i + 3) % 11], "pos", True],
           ["load", T, True],
           ["scramble"],
           ["load", T, False],
           ["save", 0, T, "o", store, LEVELS_BAD[i % 3], "kw", False],      # rejected: level
           ["save", 0, T, "w", store, 4, "kw", False],                        # rejected: write protection
           ["load", T, False],
           ["save_raises", 0, T, "o", store, 4],                              # raises part-way (C08's clause: target not read until re-saved)
           ["mutate", 0, ["drop", "add", "replace", "inplace"][i % 4], i],
           ["save", 0, T, "o", store, 0, "kw", True],
           ["inspect", T, True],
           ["load", T, False],
           ["save", 2, T, "o", "auto" if (store == "dir" or TARGET_NAMES[T].endswith(".zip")) else store, None, "kw", False],
           ["load", T, False]]
    return ops


def gen_history(rng, i):
    g = sc.Gen(rng.fork(1), {"rng_in_container": True, "fallback_in_container": True, "npcomplex": True})
    objs = [g.root(rng.weighted([(1, 3), (2, 2)])) for _ in range(3)]
    if rng.chance(0.5):
        objs[1][1] = objs[0][1]            # two different graphs of ONE class
    if i < 12:
        return {"history": True, "objs": objs, "ops": scripted(i)}
    hot = rng.below(len(TARGET_NAMES))
    ops = []
    for _ in range(rng.randint(6, 14)):
        t = hot if rng.chance(0.65) else rng.below(len(TARGET_NAMES))
        kind = rng.weighted([("save", 8), ("load", 6), ("inspect", 2), ("save_raises", 1), ("mutate", 2), ("scramble", 1),
                             ("print_tree", 1)])
        if kind == "save":
            level = rng.choice(LEVELS_BAD) if rng.chance(0.12) else rng.choice(LEVELS_OK)
            store = rng.weighted([("zip", 5), ("dir", 5), ("auto", 3), ("tar", 1)])
            ops.append(["save", rng.below(3), t, rng.weighted([("w", 2), ("o", 3)]), store, level, rng.choice(["kw", "kw", "pos"]),
                        rng.chance(0.4)])
        elif kind in ("load", "inspect"):
            ops.append([kind, t, rng.chance(0.4)])
        elif kind == "save_raises":
            ops.append(["save_raises", rng.below(3), t, rng.choice(["w", "o"]), rng.choice(["zip", "dir"]), rng.choice(LEVELS_OK)])
        elif kind == "mutate":
            ops.append(["mutate", rng.below(3), rng.choice(["drop", "add", "replace", "inplace"]), rng.below(1000)])
        elif kind == "print_tree":
            ops.append(["print_tree", rng.below(3)])
        else:
            ops.append(["scramble"])
    return {"history": True, "objs": objs, "ops": ops}


# ---- executor ----------------------------------------------------------------------------------------
def run_history(ctx, drv, case, tag):
    import numpy as np
    from quantem.core.io import serialize
    base = _scratch(tag)
    builder = sc.Builder(None)
    sink = io.StringIO()
    objs = [builder.build(r) for r in case["objs"]]
    # the graphs the USER built, kept by the harness (updated only by the explicit `mutate` ops): a call that
    # leaves an object changed — e.g. after raising part-way — shows as a failed round trip of a later save
    specs = [sc.observe(o) for o in objs]
    ref = {}          # final path -> spec of the last save that returned normally   (independent reference)
    dirty = set()     # final paths a save raised part-way on since (what they hold is C08's clause, not read here)
    mops, real = [], []   # ops sent to the model / what the real code did, index-aligned
    last_loaded = None
    nload = 0

    def P(name, as_path):
        p = os.path.join(base, name)
        return pathlib.Path(p) if as_path else p

    try:
        for op in case["ops"]:
            k = op[0]
            if k == "save":
                _, oi, ti, mode, store, level, form, as_path = op
                name = os.path.join(base, TARGET_NAMES[ti])
                final = ref_final(name, store)
                spec = specs[oi]
                why = ref_admissible(name, mode, store, level, os.path.lexists(final))
                lvl = np.int64(level) if (level is not None and as_path and level % 2 == 1) else level   # NumPy integer form of the level
                ctx.count()
                try:
                    with contextlib.redirect_stdout(sink):
                        if form == "pos":
                            objs[oi].save(P(TARGET_NAMES[ti], as_path), mode, store, (), lvl)
                        else:
                            objs[oi].save(P(TARGET_NAMES[ti], as_path), mode=mode, store=store, compression_level=lvl)
                    out = {"saved": final}
                    ref[final] = spec
                    dirty.discard(final)
                except Exception as e:  # noqa
                    out = {"raised": type(e).__name__, "msg": str(e)[:120]}
                    if why is None:
                        ctx.pred_fail(f"history:save-raises:{type(e).__name__}", "a save inside the property's quantifier raised "
                                      "(supported graph, store zip/dir, level None/0..9, target absent or mode='o')", case,
                                      observed=out, required="save succeeds")
                mops.append({"k": "save", "v": spec, "path": name, "mode": mode, "store": store, "level": level})
                real.append(out)
                ctx.dist[f"hist:save:{'ok' if 'saved' in out else why or 'raised'}"] += 1
            elif k == "save_raises":
                _, oi, ti, mode, store, level = op
                name = os.path.join(base, TARGET_NAMES[ti])
                final = ref_final(name, store)
                # an unsupported member (object-dtype array) written LAST, so the call raises part-way
                objs[oi].zz_unsupported = np.array([{1}, None], dtype=object)
                ctx.count()
                try:
                    with contextlib.redirect_stdout(sink):
                        objs[oi].save(name, mode=mode, store=store, compression_level=level)
                    out = {"saved": final}
                except Exception as e:  # noqa
                    out = {"raised": type(e).__name__}
                finally:
                    del objs[oi].zz_unsupported
                if ref_admissible(name, mode, store, level, os.path.lexists(final)) is None or "saved" in out:
                    dirty.add(final)
                mops.append({"k": "saveRaises", "path": name, "mode": mode, "store": store, "level": level})
                real.append(out)
                ctx.dist["hist:save_raises"] += 1
            elif k in ("load", "inspect"):
                _, ti, as_path = op
                name = os.path.join(base, TARGET_NAMES[ti])
                # the user reads what the save wrote: "<name>.zip" when a zip save appended the extension
                cands = [p for p in (name, name + ".zip") if p in ref]
                path = cands[nload % len(cands)] if cands else name
                nload += 1
                if path in dirty:
                    continue
                ctx.count()
                try:
                    with contextlib.redirect_stdout(sink):
                        if k == "load":
                            got = serialize.load(pathlib.Path(path) if as_path else path)
                        else:
                            serialize.print_file(pathlib.Path(path) if as_path else path)
                            got = None
                    if k == "load":
                        o = sc.observe(got)
                        out = {"loaded": o}
                        last_loaded = got
                        if path in ref:
                            d = sc.prop_equal(ref[path], o)
                            if d:
                                what = d[0].rsplit(".", 1)[-1] if d[0].endswith((".names", ".len", ".class")) else "value"
                                ctx.pred_fail(f"history:load-differs:{what}",
                                              f"load() does not return the graph of the most recent successful save onto this target (at {d[0]})",
                                              case, observed=sc.short(d[2]), required=sc.short(d[1]))
                    else:
                        out = {"printed": True}
                except Exception as e:  # noqa
                    out = {"raised": type(e).__name__, "msg": str(e)[:120]}
                    if path in ref:
                        ctx.pred_fail(f"history:{k}-raises:{type(e).__name__}", f"{k} of a target that holds a successfully saved object raised",
                                      case, observed=out, required="the saved graph")
                mops.append({"k": k, "path": path})
                real.append(out)
                ctx.dist[f"hist:{k}:{'hit' if path in ref else 'missing'}"] += 1
            elif k == "mutate":
                mutate(objs[op[1]], op[2], op[3])
                specs[op[1]] = sc.observe(objs[op[1]])
                ctx.dist["hist:mutate:" + op[2]] += 1
            elif k == "scramble":
                if last_loaded is not None:
                    scramble(last_loaded)
                    ctx.dist["hist:scramble"] += 1
            elif k == "print_tree":
                with contextlib.redirect_stdout(sink):
                    objs[op[1]].print_tree()
        # ---- model
        m = drv.ask({"op": "history", "ops": mops})
        if "ok" not in m:
            raise RuntimeError(m)
        for i, (mo, ro, sent) in enumerate(zip(m["ok"], real, mops)):
            if "saved" in mo:
                ok = ro.get("saved") == mo["saved"][1]
                mm, rr = {"saved": mo["saved"][1]}, ro
            elif "loaded" in mo:
                ok = "loaded" in ro and sc.canon_order(ro["loaded"]) == sc.canon_order(mo["loaded"])
                mm, rr = {"loaded": sc.canon_order(mo["loaded"])}, ({"loaded": sc.canon_order(ro["loaded"])} if "loaded" in ro else ro)
            elif "printed" in mo:
                ok, mm, rr = "printed" in ro, mo, ro
            else:
                # a save that raises part-way: the type of the exception belongs to zarr, only "raised" is compared
                ok = "raised" in ro and (sent["k"] == "saveRaises" and mo["raised"] == "TypeError" or ro["raised"] == mo["raised"])
                mm, rr = mo, ro
            if not ok:
                ctx.disagree("history", case, mm, rr, note=f"op #{i} {sent['k']} path={os.path.basename(sent['path'])} "
                             f"mode={sent.get('mode')} store={sent.get('store')} level={sent.get('level')}")
                break
        stores = sorted({("zip" if p.endswith(".zip") else "dir") for p in ref})
        ctx.mark(("history", tuple(stores), tuple(sorted({o[0] for o in case["ops"]})), min(len(case["ops"]), 12)))
        ctx.sample({"history": True, "ops": case["ops"][:8]}, limit=5)
    finally:
        shutil.rmtree(base, ignore_errors=True)


def history_stream(ctx, drv):
    n = ctx.n(40, 300)
    for i in range(n):
        rng = ctx.rng.fork(880000 + i)
        run_history(ctx, drv, gen_history(rng, i), f"h{i}")


# ---- save() argument checks ----------------------------------------------------------------------------
def resolve_case(ctx, drv, case, tag):
    """one call of save() on a tiny object with the given arguments and pre-state; three-way comparison
    real / model (`resolveSave`) / reference; after a REJECTED call the same object is saved validly and
    reloaded (exception safety)"""
    import numpy as np
    from quantem.core.io import serialize
    from . import ser_classes
    base = _scratch(tag)
    sink = io.StringIO()
    try:
        name = os.path.join(base, case["name"])
        os.makedirs(os.path.dirname(name), exist_ok=True)   # a parent with a dot in its name: only the last component counts
        final = ref_final(name, case["store"])
        if case["exists"] == "file":
            open(final, "w").close()
        elif case["exists"] == "dir":
            os.makedirs(final)
        o = ser_classes.SA.__new__(ser_classes.SA)
        o.n, o.arr, o.seq = 3, np.arange(4).reshape(2, 2), ["a", 1]
        spec = sc.observe(o)
        ctx.count()
        try:
            with contextlib.redirect_stdout(sink):
                o.save(name, mode=case["mode"], store=case["store"], compression_level=case["level"])
            impl = {"ok": final if os.path.lexists(final) else "<nothing at the expected path>"}
        except Exception as e:  # noqa
            impl = {"err": type(e).__name__}
        m = drv.ask({"op": "resolve", "path": name, "mode": case["mode"], "store": case["store"], "level": case["level"],
                     "exists": case["exists"] != "no"})
        mm = {"ok": m["ok"][1]} if "ok" in m else {"err": m["err"]}
        if mm != impl:
            ctx.disagree("save-args", case, mm, impl, note="argument checks of save()")
        why = ref_admissible(name, case["mode"], case["store"], case["level"], case["exists"] != "no")
        if why is None and "err" in impl:
            ctx.pred_fail(f"save-args:raises:{impl['err']}", "a save inside the property's quantifier raised", case,
                          observed=impl, required="save succeeds")
        if "ok" in impl:
            try:
                with contextlib.redirect_stdout(sink):
                    back = serialize.load(final)
                d = sc.prop_equal(spec, sc.observe(back))
                if d:
                    ctx.pred_fail("save-args:roundtrip", f"loaded graph differs at {d[0]}", case, observed=sc.short(d[2]), required=sc.short(d[1]))
            except Exception as e:  # noqa
                ctx.pred_fail(f"save-args:load-raises:{type(e).__name__}", "load() of the target a save just wrote raised", case,
                              observed=str(e)[:160], required="the saved graph")
        else:
            # exception safety: the rejected call must not poison a following valid one on the same object
            for st, nm in (("zip", "after.zip"), ("dir", "after")):
                try:
                    with contextlib.redirect_stdout(sink):
                        o.save(os.path.join(base, nm), store=st)
                        back = serialize.load(os.path.join(base, nm))
                    d = sc.prop_equal(spec, sc.observe(back))
                    if d:
                        ctx.pred_fail("save-args:after-rejected", f"a valid save after a rejected one does not round-trip (at {d[0]})", case,
                                      observed=sc.short(d[2]), required=sc.short(d[1]))
                except Exception as e:  # noqa
                    ctx.pred_fail(f"save-args:after-rejected-raises:{type(e).__name__}",
                                  "a valid save + load after a rejected save raised", case, observed=str(e)[:160], required="round trip")
        ctx.dist[f"save-args:{why or 'admissible'}"] += 1
        ctx.mark(("save-args", case["name"], case["store"], case["mode"], why or "ok", case["exists"]))
    finally:
        shutil.rmtree(base, ignore_errors=True)


def resolve_stream(ctx, drv):
    rng = ctx.rng.fork(881001)
    names = TARGET_NAMES + ["x.y/plain", "x.y/.z.w", "..hh", "H.ZIP", "a.zip.zip", ".zip"]
    grid = [(n, s, m, lv, ex) for n in names for s in ("zip", "dir", "auto", "tar") for m in ("w", "o")
            for lv in (None, 0, 9, 10, -1) for ex in ("no", "file", "dir")]
    picks = rng.sample(grid, min(len(grid), ctx.n(90, 600)))
    for i, (n, s, m, lv, ex) in enumerate(picks):
        case = {"save_args": True, "name": n, "store": s, "mode": m, "level": lv, "exists": ex}
        resolve_case(ctx, drv, case, f"r{i}")


# ---- _is_numeric_scalar ----------------------------------------------------------------------------------
def numeric_stream(ctx, drv):
    import decimal
    import fractions
    import numpy as np
    import torch
    from quantem.core.io.serialize import AutoSerialize
    vals = [True, False, 0, -1, 2 ** 70, 1.5, float("nan"), np.float64(1), np.float32(1), np.float16(1), np.int8(1), np.uint64(1),
            np.bool_(True), np.complex64(1), 1 + 2j, "1", np.str_("1"), None, np.array(1), np.array([1]), np.array(1.5), torch.tensor(1),
            torch.tensor([1.0]), [1], (1,), {}, set(), {1: 2}, pathlib.Path("1"), fractions.Fraction(1, 2), decimal.Decimal(1), b"1",
            np.int64(0), np.longdouble(1), range(2), frozenset([1])]
    for v in vals:
        feat = {"arraylike": isinstance(v, (np.ndarray, torch.Tensor, list, tuple, dict, set)),
                "pynumber": isinstance(v, (int, float, bool)),
                "npreal": isinstance(v, (np.integer, np.floating, np.bool_))}
        m = drv.ask(dict(feat, op="numeric"))
        impl = bool(AutoSerialize._is_numeric_scalar(v))
        ctx.count()
        if m.get("ok") != impl:
            ctx.disagree("numeric-scalar", {"numeric_scalar": repr(v)[:40], "type": type(v).__name__}, m.get("ok"), impl,
                         note="_is_numeric_scalar")


# ---- the type-dispatch chain ---------------------------------------------------------------------------
def facts(v):
    """the facts `_serialize_value` asks about a value, evaluated by the harness itself"""
    import numpy as np
    import torch
    from quantem.core.io.serialize import AutoSerialize
    h = lambda n: hasattr(v, n)  # noqa: E731
    f = dict(
        isTensor=isinstance(v, torch.Tensor), isOptimizer=isinstance(v, torch.optim.Optimizer), hasStep=h("step"),
        hasGetLastLr=h("get_last_lr"), hasAddScalar=h("add_scalar"), hasAddImage=h("add_image"), hasLog=h("log"), hasInfo=h("info"),
        isModule=isinstance(v, torch.nn.Module), hasModuleAttr=h("__module__"),
        moduleMentionsTorch=bool(h("__module__") and "torch" in str(v.__module__)), isNdarray=isinstance(v, np.ndarray),
        isInt=isinstance(v, int), isFloat=isinstance(v, float), isStr=isinstance(v, str), isBool=isinstance(v, bool), isNone=v is None,
        hasDtype=h("dtype"), hasItem=h("item"), isNpComplex=isinstance(v, np.complexfloating), hasFspath=h("__fspath__"),
        typeStrPathlib=str(type(v)).startswith("<class 'pathlib."), isAutoSerialize=isinstance(v, AutoSerialize),
        isList=isinstance(v, list), isTuple=isinstance(v, tuple), isDict=isinstance(v, dict), isSet=isinstance(v, set),
        hasBitGenerator=h("bit_generator"), hasGetState=h("get_state"), hasSetState=h("set_state"))
    return {k: bool(b) for k, b in f.items()}


def real_branch(value):
    """which branch the real `_serialize_value` took, read off what it left in an in-memory group"""
    import gzip
    import numpy as np
    import zarr
    from . import ser_classes
    g = zarr.group(store=zarr.storage.MemoryStore())
    with contextlib.redirect_stdout(io.StringIO()):
        ser_classes.SA.__new__(ser_classes.SA)._serialize_value(value, g, "x", set(), (), None)
    if "x" in g.attrs:
        return "path" if g.attrs.get("x.is_path") else "attr"
    if "x" in list(g.array_keys()):
        a = g["x"]
        if a.dtype == np.uint8 and a.ndim == 1:
            try:
                gzip.decompress(np.asarray(a[:]).tobytes())
                return "fallback"
            except Exception:  # noqa
                pass
        return "ndarray"
    if "x" in list(g.group_keys()):
        at = dict(g["x"].attrs)
        for flag, name in (("_torch_tensor", "tensor"), ("_torch_optimizer", "optimizer"), ("_torch_scheduler", "scheduler"),
                           ("_torch_logger", "torchLogger"), ("_python_logger", "pyLogger"), ("_torch_whole_module", "module"),
                           ("_autoserialize", "obj")):
            if at.get(flag):
                return name
        if at.get("_container_type") is not None:
            return "set" if at["_container_type"] == "set" else "container"
        if at.get("_numpy_rng"):
            return "npRng"
        if at.get("_torch_rng_skipped"):
            return "torchRng"
    return "nothing-recognisable-written"


def kind_objects(scratch):
    import logging
    import numpy as np
    import torch
    from . import ser_classes
    lin = torch.nn.Linear(2, 2)
    opt = torch.optim.SGD(lin.parameters(), lr=0.1)
    o = ser_classes.SB.__new__(ser_classes.SB)
    o.a = 1
    kinds = {
        "tensor": torch.tensor([1.0]), "parameter": torch.nn.Parameter(torch.tensor([1.0])), "optimizer": opt,
        "scheduler": torch.optim.lr_scheduler.StepLR(opt, 2), "pyLogger": logging.getLogger("qv.a"), "module": lin,
        "torchGenerator": torch.Generator(), "torchSize": torch.Size([1, 2]), "torchDtype": torch.float32,
        "ndarray": np.arange(3), "ndarray0d": np.array(1.5), "pyBool": True, "pyInt": 3, "pyFloat": 1.5, "pyStr": "s", "pyNone": None,
        "npFloat64": np.float64(1), "npFloat32": np.float32(1), "npInt64": np.int64(1), "npBool": np.bool_(True), "npStr": np.str_("a"),
        "npComplex": np.complex64(1), "path": pathlib.Path("a"), "purePath": pathlib.PurePosixPath("a"), "obj": o,
        "list": [1], "tuple": (1,), "dict": {}, "set": set(), "npRng": np.random.default_rng(1),
        "pyComplex": 1 + 2j, "bytes": b"x", "frozenset": frozenset(),
    }
    try:
        from torch.utils.tensorboard import SummaryWriter
        kinds["summaryWriter"] = SummaryWriter(log_dir=os.path.join(scratch, "tb"))
    except Exception:  # noqa  (tensorboard not installed: that row of the table is not measured)
        pass
    # degenerate members of the same kinds
    more = [("ndarray", np.zeros((0, 3))), ("ndarray", np.array(["a"])), ("ndarray0d", np.array(True)), ("pyInt", 0), ("pyInt", 2 ** 70),
            ("pyFloat", float("nan")), ("pyFloat", -0.0), ("pyStr", ""), ("pyBool", False), ("npFloat32", np.float16(0)),
            ("npInt64", np.uint8(0)), ("npBool", np.bool_(False)), ("npComplex", np.complex128(0)), ("list", []), ("tuple", ()),
            ("dict", {"a": 1}), ("set", {1}), ("tensor", torch.tensor(0)), ("tensor", torch.zeros((0,))), ("bytes", b""),
            ("npRng", np.random.Generator(np.random.MT19937(1))), ("module", torch.nn.Sequential())]
    return list(kinds.items()) + more


def dispatch_stream(ctx, drv):
    scratch = _scratch("dispatch")
    try:
        table = drv.ask({"op": "kinds"})["ok"]
        objs = kind_objects(scratch)
        measured = set()
        for kind, v in objs:
            f = facts(v)
            on = sorted(k for k, b in f.items() if b)
            case = {"dispatch": kind, "repr": repr(v)[:40]}
            ctx.count()
            if sorted(table[kind]["feat"]) != on:
                ctx.disagree("dispatch-facts", case, sorted(table[kind]["feat"]), on,
                             note="facts of a value kind (SerDispatch.featOf) vs the real object")
            m = drv.ask({"op": "dispatch", "feat": f})["ok"]
            if m["model"] != m["gen"]:
                ctx.disagree("dispatch-generated", case, m["model"], m["gen"], note="hand model vs the chain translated from the source")
            if not m.get("consistent"):
                ctx.disagree("dispatch-consistent", case, "Consistent (the tie theorems are stated for consistent fact vectors)", on,
                             note="facts measured on a real object violate SerDispatch.Consistent")
            rb = real_branch(v)
            if rb != m["obs"]:
                ctx.disagree("dispatch-branch", case, m["obs"], rb, note="branch taken by _serialize_value")
            if m["gen"] != table[kind]["branch"]:
                ctx.disagree("dispatch-kind", case, table[kind]["branch"], m["gen"], note="SerDispatch.branchOf")
            measured.add(kind)
            ctx.mark(("dispatch", kind, rb))
            ctx.dist["dispatch:" + rb] += 1
            if hasattr(v, "close") and kind == "summaryWriter":
                v.close()
        ctx.extra["dispatch_kinds_measured"] = f"{len(measured)}/{len(table)}"
        # values of the universe: the node `encode` stores shows the branch the real code takes
        rng = ctx.rng.fork(882001)
        g = sc.Gen(rng, {"rng_in_container": True, "fallback_in_container": True, "npcomplex": True})
        b = sc.Builder(None)
        for i in range(ctx.n(120, 1200)):
            r = g.value(rng.weighted([(0, 3), (1, 1)]))
            v = b.build(r)
            spec = sc.observe(v)
            m = drv.ask({"op": "nodeobs", "v": spec})["ok"]
            ctx.count()
            rb = real_branch(v)
            if rb != m["obs"]:
                ctx.disagree("dispatch-encode", {"dispatch_value": r}, m, rb, note="branch shown by encode's node vs _serialize_value")
            # the chain (hand model and text translated from the source) on the facts of this very object
            d = drv.ask({"op": "dispatch", "feat": facts(v)})["ok"]
            if d["obs"] != rb or d["model"] != d["gen"] or not d.get("consistent"):
                ctx.disagree("dispatch-branch", {"dispatch_value": r}, d, rb, note="chain on the facts of a generated value vs _serialize_value")
            ctx.dist["dispatch-value:" + m["kind"]] += 1
    finally:
        shutil.rmtree(scratch, ignore_errors=True)


# ---- wider input classes for the round-trip stream (C01 only; ser_common.Gen / Builder are shared) -------
class BuilderX(sc.Builder):
    """adds ALIASED members: one Python object referenced from several places of the graph"""

    def build(self, r):
        t = r[0]
        if t == "shared":            # ["shared", "list"|"tuple", recipe, n]
            x = self.build(r[2])
            return [x] * r[3] if r[1] == "list" else tuple([x] * r[3])
        if t == "shared_dict":       # ["shared_dict", [keys], recipe]
            x = self.build(r[2])
            return {k: x for k in r[1]}
        if t == "shared_obj":        # ["shared_obj", cls, [names], recipe]
            from . import ser_classes
            o = ser_classes.CLASSES[r[1]].__new__(ser_classes.CLASSES[r[1]])
            x = self.build(r[3])
            for k in r[2]:
                setattr(o, k, x)
            return o
        if t in ("list", "tuple", "set", "dict", "obj"):
            # same as the base class, but recursing through this builder
            if t == "list":
                return [self.build(e) for e in r[1]]
            if t == "tuple":
                return tuple(self.build(e) for e in r[1])
            if t == "set":
                return set(self.build(e) for e in r[1])
            if t == "dict":
                return {k: self.build(e) for k, e in r[1]}
            from . import ser_classes
            o = ser_classes.CLASSES[r[1]].__new__(ser_classes.CLASSES[r[1]])
            for k, e in r[2]:
                setattr(o, k, self.build(e))
            return o
        return super().build(r)


DICT_KEYS_X = [" ", "a.b", "values", "10", "007", "-1", "1.5", "_container", "x y", "k"]


class GenX(sc.Gen):
    """degenerate classes the base generator does not draw: aliased members, exact duplicates, one-element
    sequences of every scalar type, integers beyond int64 outside numeric sequences, dict keys that look like
    element indices / metadata / dotted names, empty root objects"""

    def value(self, depth, in_container=False, hashable=False):
        rng = self.rng
        if hashable or not rng.chance(0.22):
            return super().value(depth, in_container, hashable)
        S = sc.S
        opts = [
            # (an all-numeric sequence stays inside the quantifier: integers within int64, no uint64 scalars)
            (lambda: ["shared", rng.choice(["list", "tuple"]), self.sanitize_seq([super(GenX, self).value(0, True)])[0], rng.randint(2, 3)], 3),
            (lambda: ["shared_dict", rng.sample(DICT_KEYS_X, rng.randint(2, 3)), super(GenX, self).value(0, True)], 2),
            (lambda: ["shared_obj", rng.choice(["SA", "SB"]), rng.sample(sc.NAMES, rng.randint(2, 3)), super(GenX, self).value(max(depth - 1, 0), False)], 2),
            (lambda: [rng.choice(["list", "tuple"]), [["scalar", S(rng.choice(["a", "", None, "0"]))]] * rng.randint(2, 4)], 2),
            (lambda: [rng.choice(["list", "tuple"]), [rng.choice([["np", "float16", S(0.5)], ["np", "uint8", S(255)], ["np", "int8", S(-128)],
                                                                 ["np", "bool", S(True)], ["scalar", S(-0.0)], ["scalar", S(0)],
                                                                 ["scalar", S(False)], ["np", "float32", S(float("nan"))]])]], 3),
            (lambda: ["scalar", S(rng.choice([2 ** 70, -(2 ** 70), 2 ** 63, 5e-324, "a\x00b", "x" * 3000]))], 2),
            (lambda: [rng.choice(["list", "tuple"]), [["scalar", S(rng.choice([2 ** 70, 2 ** 64]))], ["scalar", S("tail")]]], 1),
            (lambda: ["dict", [[k, super(GenX, self).value(0, True)] for k in rng.sample(DICT_KEYS_X, rng.randint(1, 4))]], 3),
            (lambda: ["obj", rng.choice(["SA", "SB", "SC"]), []], 1),
            (lambda: ["list", [["list", []], ["tuple", []], ["dict", []], ["set", []], ["obj", "SC", []]]], 1),
        ]
        return rng.weighted(opts)()

    def root(self, depth):
        if self.rng.chance(0.03):
            return ["obj", self.rng.choice(["SA", "SB", "SC"]), []]          # an object without attributes
        return super().root(depth)


# ---- fixed probes of recorded findings -------------------------------------------------------------------
def finding_probes(ctx):
    import numpy as np
    from quantem.core.io import serialize
    from . import ser_classes
    base = _scratch("probes")
    sink = io.StringIO()
    try:
        probes = [("dict-key-not-a-zarr-node-name", {"": np.arange(2)}), ("dict-key-not-a-zarr-node-name", {"..": np.arange(2)}),
                  ("dict-key-not-a-zarr-node-name", {".": [1, "a"]}),
                  ("ndarray-non-native-byteorder", np.arange(3, dtype=np.dtype("int32").newbyteorder("S")))]
        for i, (key, val) in enumerate(probes):
            o = ser_classes.SA.__new__(ser_classes.SA)
            o.v = val
            case = {"probe": key, "value": repr(val)[:60]}
            ctx.count()
            try:
                with contextlib.redirect_stdout(sink):
                    o.save(os.path.join(base, f"p{i}.zip"))
                    back = serialize.load(os.path.join(base, f"p{i}.zip"))
                want = sc.observe(o)
                got = sc.observe(back)
                if isinstance(val, np.ndarray):
                    ok = got == want and back.v.dtype == val.dtype
                    obs = str(back.v.dtype) + " byteorder " + back.v.dtype.byteorder
                    req = str(val.dtype) + " byteorder " + val.dtype.byteorder
                else:
                    d = sc.prop_equal(want, got)
                    ok, obs, req = d is None, sc.short(d[2]) if d else None, sc.short(d[1]) if d else None
                if not ok:
                    ctx.pred_fail(key, "loaded graph differs from the saved one", case, observed=obs, required=req)
            except Exception as e:  # noqa
                ctx.pred_fail(key, "save/load raised", case, observed=f"{type(e).__name__}: {str(e)[:100]}", required="round trip")
    finally:
        shutil.rmtree(base, ignore_errors=True)
