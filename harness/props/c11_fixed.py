"""C11 — FIXED op histories (independent of VERIF_SEED), growth round 6.

Every history is a plain list of op requests in the vocabulary of harness/props/c11.py; `run_ops` executes it on the
real class, the pure-Python oracle (all property predicates after every step) and the Lean model (full-state
comparison after every step).  The histories enumerate input classes that the random generator reaches only by chance:

* 3 and 4 fixed dimensions under copy() / copy of a copy, then in-place field operations on EITHER side, with arrays
  that sit in two cells, unset cells, int64 and float64 cells, zero-row cells;
* fancy assignment / retrieval with index lists and integer ndarrays that are descending or unsorted, on every fixed
  dimension in turn; negative-step slices; the last index; index == length; negative indices;
* vectors with exactly ONE populated cell (shape (1,), (1,1,1), others unset): a kept flatten() result and later
  in-place changes (field arithmetic, set_flattened, a row written through an over-long index);
* 11 and more fields (two-digit column numbers, `field_1` vs `field_10`), removing a column in front;
* axis lengths 11 / 13, index lists longer than 10, cells with 130 / 260 rows (more than 127 / 255 values);
* cells with 0 rows everywhere;
* rejected calls between valid ones (the theorem `history_drops_rejected` on the model side);
* two vectors with the same schema alive at once, the same call repeated.
"""

SL = {"s": [None, None, None]}


def rows(n, ncols, base=0):
    return [[str(base + 10 * i + j) for j in range(ncols)] for i in range(n)]


def qrows(n, ncols, base=0):
    return [[f"{4 * (base + 10 * i + j) + 1}/4" for j in range(ncols)] for i in range(n)]


class S:
    """builds one history; keeps track of the pool / vector / view / kept numbering"""

    def __init__(self, name):
        self.name = name
        self.ops = []
        self.npool = 0
        self.nvec = 0
        self.nview = 0
        self.nkept = 0

    def alloc(self, ncols, n, base=0, is_int=False, layout="C", quarter=False):
        r = qrows(n, ncols, base) if (quarter and not is_int) else rows(n, ncols, base)
        self.ops.append({"op": "alloc", "ncols": ncols, "rows": r, "int": is_int, "layout": layout})
        self.npool += 1
        return {"p": self.npool - 1}

    def from_shape(self, shape, fields=None, num_fields=None, units=None):
        op = {"op": "from_shape", "shape": list(shape)}
        if fields is not None:
            op["fields"] = list(fields)
        if num_fields is not None:
            op["num_fields"] = num_fields
        if units is not None:
            op["units"] = list(units)
        self.ops.append(op)
        self.nvec += 1
        return self.nvec - 1

    def bad_from_shape(self, shape, **kw):
        self.from_shape(shape, **kw)
        self.nvec -= 1

    def from_data(self, items, fields=None):
        op = {"op": "from_data", "items": list(items)}
        if fields is not None:
            op["fields"] = list(fields)
        self.ops.append(op)
        self.nvec += 1
        return self.nvec - 1

    def op(self, **kw):
        self.ops.append(kw)

    def fill(self, v, shape, ncols, rowcounts=None, ints=(), skip=(), via="setitem"):
        """single-cell assignments of fresh arrays to every cell (row-major), except positions in `skip`"""
        import itertools
        refs = {}
        for pos, coord in enumerate(itertools.product(*[range(d) for d in shape])):
            if pos in skip:
                continue
            n = (rowcounts[pos % len(rowcounts)] if rowcounts else (pos % 3) + 1)
            p = self.alloc(ncols, n, base=pos + 1, is_int=(pos in ints), layout=["C", "F", "rows2", "rev"][pos % 4], quarter=(pos % 2 == 1))
            refs[pos] = p
            self.op(op=via if pos % 2 == 0 else ("set_data" if via == "setitem" else via), v=v, idx=[{"i": c} for c in coord], val={"one": p})
        return refs

    def copy(self, v):
        self.op(op="copy", v=v)
        self.nvec += 1
        return self.nvec - 1

    def getitem_vec(self, v, idx):
        self.op(op="getitem", v=v, idx=idx)
        self.nvec += 1
        return self.nvec - 1

    def fop(self, v, f, k="add", c="1", via="item"):
        self.op(op="field_op", v=v, f=f, k=k, c=c, via=via)

    def fop_int(self, v, f, k="add", c="1", via="view", expect="ok"):
        self.op(op="field_op_gen", v=v, f=f, k=k, rhs={"c": c, "c_int": True}, neg_int_pow=False, via=via, expect=expect)

    def view(self, v, f):
        self.op(op="view_make", v=v, f=f)
        self.nview += 1
        return self.nview - 1

    def vflat(self, w, via="method"):
        self.op(op="view_flatten", w=w, via=via)
        self.nkept += 1
        return self.nkept - 1

    def vop(self, w, k="add", c="1", c_int=False, expect="ok"):
        self.op(op="view_op", w=w, k=k, rhs={"c": c, "c_int": c_int}, neg_int_pow=False, expect=expect)


def _copy_nd(shape, tag):
    s = S(f"copy-{tag}")
    v = s.from_shape(shape, fields=["x", "y"], units=["m", "s"])
    ncell = 1
    for d in shape:
        ncell *= d
    refs = s.fill(v, shape, 2, rowcounts=[2, 0, 1, 3], ints={2, 5}, skip={ncell - 2})
    # one array sits in two cells of the source (deepcopy memo: the copy shares it between its own two cells only)
    last = [{"i": d - 1} for d in shape]
    s.op(op="setitem", v=v, idx=last, val={"one": refs[0]})
    c = s.copy(v)
    s.fop(c, "y", "add", "3", via="item")
    s.fop(v, "x", "mul", "2", via="view")
    fv = s.view(v, "y")
    s.vflat(fv)
    s.fop(c, "y", "sub", "5/2", via="view")
    s.fop_int(v, "y", "add", "7", via="item")
    s.vflat(fv, via="asarray")
    c2 = s.copy(c)                       # a copy of a copy
    s.fop(c2, "x", "mul", "-1", via="item")
    s.fop(c, "x", "add", "1/2", via="item")
    s.op(op="writeback", v=c2, f="y")
    s.op(op="keep_all", v=c2)
    s.fop(c2, "y", "add", "1", via="view")
    # set_flattened on the copy with the total number of rows of the copy
    tot = 0
    for pos in range(ncell):
        if pos == ncell - 2:
            continue
        tot += [2, 0, 1, 3][pos % 4] if pos != ncell - 1 else 2
    s.op(op="set_flattened", v=c, f="x", vals=[str(100 + i) for i in range(tot)], via="method", as_list=False)
    s.fop(v, "y", "mul", "2", via="item")
    s.op(op="add_fields", v=c, names=["z"], as_str=True, as_tuple=False)
    s.fop(c, "z", "add", "4", via="item")
    s.op(op="remove_fields", v=v, names=["x"], as_str=True)
    s.fop(v, "y", "add", "1", via="view")
    s.copy(v)
    s.op(op="getitem", v=c, idx=[{"i": d - 1} for d in shape])
    s.op(op="getitem", v=c2, idx=[{"i": -1} for d in shape])
    return s


def _fancy_nd(shape, tag):
    """descending / unsorted index lists and negative-step slices on every fixed dimension in turn"""
    s = S(f"fancy-unsorted-{tag}")
    nd = len(shape)
    v = s.from_shape(shape, fields=["a", "b", "q"])
    s.fill(v, shape, 3, rowcounts=[1, 2, 0, 2], ints={1})
    for dim in range(nd):
        d = shape[dim]
        desc = list(range(d - 1, -1, -2))                 # [4, 2, 0]
        uns = [d - 2, d - 1, 0] if d >= 3 else [d - 1, 0]   # unsorted
        for li, (lst, asnp) in enumerate([(desc, False), (uns, True), ([d - 1, max(d - 2, 0)], True), ([d - 1, 0, d - 1], False)]):   # the last one repeats a position: last writer wins
            if len(lst) < 2 and d >= 2:
                lst = [d - 1, 0]
            idx = [({"l": lst, "np": asnp} if i == dim else ({"i": shape[i] - 1} if (i + li) % 2 == 0 else dict(SL))) for i in range(nd)]
            total = 1
            for i in range(nd):
                total *= len(lst) if i == dim else (1 if (i + li) % 2 == 0 else shape[i])
            vals = [s.alloc(3, (k % 3), base=50 + k, is_int=(k == 1), quarter=(k % 2 == 0)) for k in range(total)]
            s.op(op="setitem" if li != 1 else "set_data", v=v, idx=idx, val={"many": vals})
            s.op(op="get_data", v=v, idx=idx)
            s.getitem_vec(v, idx)
        # negative-step slices on this dimension, the others addressed by their last index / whole axis
        for sl in ([None, None, -1], [d - 1, None, -2], [-1, 0, -1]):
            idx = [({"s": sl} if i == dim else ({"i": shape[i] - 1} if i % 2 == 1 else dict(SL))) for i in range(nd)]
            import itertools
            lens = [len(range(*slice(*(sl if i == dim else ([shape[i] - 1, shape[i], 1] if i % 2 == 1 else [None, None, None]))).indices(shape[i]))) for i in range(nd)]
            total = 1
            for n in lens:
                total *= n
            if total == 0:
                s.op(op="get_data", v=v, idx=idx)
                continue
            vals = [s.alloc(3, 1 + (k % 2), base=80 + k) for k in range(total)]
            s.op(op="setitem", v=v, idx=idx, val={"many": vals})
            s.getitem_vec(v, idx)
            s.op(op="get_data", v=v, idx=idx)
        # index == length / negative on every path (rejected by the checked paths, wrapped by __getitem__)
        for bad in (d, -1, -d, -d - 1):
            idx = [({"i": bad} if i == dim else {"i": 0}) for i in range(nd)]
            s.op(op="get_data", v=v, idx=idx)
            s.op(op="getitem", v=v, idx=idx)
            s.op(op="setitem", v=v, idx=idx, val={"one": s.alloc(3, 1, base=7)})
            s.op(op="set_data", v=v, idx=idx, val={"one": s.alloc(3, 2, base=9)})
            lidx = [({"l": [0, bad], "np": True} if i == dim else {"i": 0}) for i in range(nd)]
            s.op(op="getitem", v=v, idx=lidx)
            s.op(op="get_data", v=v, idx=lidx)
    s.fop(v, "q", "add", "1", via="item")
    s.op(op="writeback", v=v, f="a")
    return s


def _one_cell(shape, pos_coord, tag, is_int=False):
    s = S(f"one-populated-{tag}")
    v = s.from_shape(shape, fields=["x", "y", "z"])
    p = s.alloc(3, 3, base=1, is_int=is_int, layout="C")
    s.op(op="setitem", v=v, idx=[{"i": c} for c in pos_coord], val={"one": p})
    for f, via in (("x", "method"), ("z", "asarray"), ("y", "method")):
        fv = s.view(v, f)
        s.vflat(fv, via=via)
        s.op(op="keep_all", v=v)
        s.fop(v, f, "add", "2", via="item")
        s.vop(fv, "mul", "2", c_int=True)
        s.fop(v, f, "sub", "1", via="view")
        s.op(op="set_flattened", v=v, f=f, vals=["11", "12", "13"], via="setitem", as_list=False)
        s.vflat(fv)
        # a row written in place through an over-long index
        r = s.alloc(3, 1, base=40, is_int=is_int)
        s.op(op="setitem", v=v, idx=[{"i": c} for c in pos_coord] + [{"i": 1}], val={"one": r})
        s.op(op="kept_mutate", kept=s.nkept - 1, k="add", c="3")
        s.op(op="writeback", v=v, f=f)
    c = s.copy(v)
    fv = s.view(c, "x")
    s.vflat(fv)
    s.fop(c, "x", "mul", "3", via="item")
    s.fop(v, "x", "add", "1", via="item")
    s.vflat(fv)
    s.op(op="remove_fields", v=c, names=["x"], as_str=True)
    s.view(c, "y")
    s.vflat(s.nview - 1)
    s.fop(c, "y", "add", "1", via="view")
    return s


def _many_fields():
    out = []
    s = S("many-fields-12")
    v = s.from_shape([2, 2], num_fields=12)
    s.fill(v, [2, 2], 12, rowcounts=[2, 1, 0, 1], ints={3})
    for f in ("field_10", "field_11", "field_1", "field_9"):
        fv = s.view(v, f)
        s.vflat(fv)
        s.fop(v, f, "add", "1", via="item")
    s.op(op="remove_fields", v=v, names=["field_1"], as_str=True)          # field_10 moves from column 10 to 9
    s.vflat(0)
    s.vop(0, "add", "5")
    s.fop(v, "field_11", "mul", "2", via="view")
    s.op(op="add_fields", v=v, names=["x", "y", "z"], as_str=False, as_tuple=True)   # 14 columns
    s.fop(v, "z", "add", "1", via="item")
    s.fop(v, "field_10", "sub", "1", via="item")
    c = s.copy(v)
    s.op(op="remove_fields", v=c, names=["field_10", "field_0", "y"], as_str=False)
    s.fop(c, "field_11", "add", "1", via="item")
    s.vflat(1)
    s.op(op="set_flattened", v=c, f="z", vals=["1", "2", "3", "4"], via="method", as_list=True)
    s.op(op="getitem", v=c, idx=[{"s": [None, None, -1]}, {"l": [1, 0], "np": True}])
    out.append(s)
    s = S("many-fields-11-named")
    names = ["x", "y", "z", "w", "a", "b", "q", "field_0", "field_1", "field_2", "field_3"]
    v = s.from_data([s.alloc(11, 2, base=1), s.alloc(11, 0, base=2), s.alloc(11, 1, base=3, is_int=True)], fields=names)
    s.fop(v, "field_3", "add", "1", via="item")
    s.op(op="add_fields", v=v, names=["field_10"], as_str=True, as_tuple=False)      # the 12th column
    s.fop(v, "field_10", "add", "2", via="item")
    s.op(op="remove_fields", v=v, names=["x", "field_1"], as_str=False)
    s.fop(v, "field_10", "mul", "2", via="view")
    s.view(v, "field_10")
    s.vflat(0)
    s.copy(v)
    s.bad_from_shape([2], fields=names + ["x"])          # duplicate among 12 names: rejected
    s.from_shape([2], fields=names + ["field_10"], num_fields=12)
    out.append(s)
    return out


def _sizes():
    out = []
    s = S("axis-13")
    v = s.from_shape([13], fields=["x", "y"])
    s.fill(v, [13], 2, rowcounts=[1, 2, 0], ints={10})
    big = list(range(12, -1, -1))                     # 13 indices, descending
    vals = [s.alloc(2, 1 + (k % 2), base=20 + k) for k in range(13)]
    s.op(op="setitem", v=v, idx=[{"l": big, "np": True}], val={"many": vals}, bare=True)
    s.getitem_vec(v, [{"l": [12, 10, 11, 0], "np": False}])
    s.op(op="get_data", v=v, idx=[{"s": [12, 9, -1]}])
    s.op(op="getitem", v=v, idx=[{"i": 12}], bare=True)
    s.op(op="getitem", v=v, idx=[{"i": 13}], bare=False)
    s.op(op="getitem", v=v, idx=[{"i": 10}])
    s.fop(v, "y", "add", "1", via="item")
    s.copy(v)
    out.append(s)
    s = S("axis-2x11")
    v = s.from_shape([2, 11], fields=["x"])
    s.fill(v, [2, 11], 1, rowcounts=[1, 0, 2], skip={21})
    s.getitem_vec(v, [{"i": 1}, {"s": [None, None, -3]}])
    s.getitem_vec(v, [{"l": [1, 0], "np": True}, {"l": [10, 9, 0], "np": True}])
    vals = [s.alloc(1, 1, base=60 + k) for k in range(11)]
    s.op(op="setitem", v=v, idx=[{"i": 1}, dict(SL)], val={"many": vals})
    s.op(op="get_data", v=v, idx=[{"i": 1}, {"i": 10}])
    s.op(op="get_data", v=v, idx=[{"i": 1}, {"i": 11}])
    s.fop(v, "x", "mul", "2", via="view")
    out.append(s)
    s = S("rows-130-260")
    v = s.from_shape([3], fields=["x", "y"])
    s.op(op="setitem", v=v, idx=[{"i": 0}], val={"one": s.alloc(2, 130, base=0, is_int=True)})
    s.op(op="setitem", v=v, idx=[{"i": 2}], val={"one": s.alloc(2, 260, base=1)})
    fv = s.view(v, "y")
    s.vflat(fv)
    s.fop(v, "y", "add", "1", via="item")
    s.op(op="set_flattened", v=v, f="x", vals=[str(i % 97) for i in range(390)], via="method", as_list=False)
    s.op(op="set_flattened", v=v, f="x", vals=[str(i % 97) for i in range(389)], via="method", as_list=False)   # rejected
    s.op(op="writeback", v=v, f="y")
    c = s.copy(v)
    s.fop(c, "x", "mul", "2", via="item")
    s.op(op="add_fields", v=v, names=["z"], as_str=True, as_tuple=False)
    s.op(op="remove_fields", v=v, names=["x"], as_str=True)
    s.vflat(fv)
    out.append(s)
    return out


def _zero_rows():
    s = S("zero-rows-everywhere")
    v = s.from_shape([2, 2], fields=["x", "y"])
    s.fill(v, [2, 2], 2, rowcounts=[0], ints={1})
    fv = s.view(v, "x")
    s.vflat(fv)
    s.op(op="keep_all", v=v)
    s.fop(v, "x", "add", "1", via="item")
    s.op(op="set_flattened", v=v, f="y", vals=[], via="method", as_list=False)
    s.op(op="set_flattened", v=v, f="y", vals=[], via="setitem", as_list=True)
    s.op(op="set_flattened", v=v, f="y", vals=["1"], via="method", as_list=False)          # rejected
    s.op(op="field_op_gen", v=v, f="x", k="add", rhs={"arr": []}, neg_int_pow=False, via="item", expect="ok")
    s.op(op="field_op_gen", v=v, f="x", k="mul", rhs={"arr": ["2"]}, neg_int_pow=False, via="view", expect="ok")
    s.op(op="add_fields", v=v, names=["z"], as_str=True, as_tuple=False)
    s.op(op="remove_fields", v=v, names=["x"], as_str=True)
    c = s.copy(v)
    s.op(op="writeback", v=c, f="z")
    s.getitem_vec(c, [{"s": [None, None, -1]}, {"i": 1}])
    s.op(op="setitem", v=v, idx=[{"i": 1}, {"i": 1}], val={"one": s.alloc(2, 2, base=3)})   # now exactly one cell has rows
    s.view(v, "y")
    s.vflat(s.nview - 1)
    s.fop(v, "y", "add", "1", via="item")
    s2 = S("zero-rows-from-data")
    v = s2.from_data([s2.alloc(1, 0), s2.alloc(1, 0, is_int=True), s2.alloc(1, 0)], fields=["x"])
    s2.view(v, "x")
    s2.vflat(0)
    s2.fop(v, "x", "add", "1", via="item")
    s2.op(op="add_fields", v=v, names=["y", "z"], as_str=False, as_tuple=False)
    s2.copy(v)
    s2.op(op="keep_all", v=v)
    return [s, s2]


def _rejected():
    """rejected calls between valid ones (exception safety); model side: Props/C11Ext `history_drops_rejected`"""
    s = S("rejected-between-valid")
    v = s.from_shape([2, 1, 2], fields=["x", "y"])
    s.bad_from_shape([2, 0], num_fields=1)
    a = s.alloc(2, 2, base=1)
    s.op(op="setitem", v=v, idx=[{"i": 1}, {"i": 0}, {"i": -1}], val={"one": a})
    s.op(op="add_fields", v=v, names=["z", "x"], as_str=False, as_tuple=False)          # exists → ValueError
    s.fop(v, "y", "add", "1", via="item")
    s.op(op="add_fields", v=v, names=["z", "z"], as_str=False, as_tuple=False)          # duplicate → ValueError
    s.op(op="setitem", v=v, idx=[{"i": 2}, {"i": 0}, {"i": 0}], val={"one": a})        # IndexError
    s.op(op="set_data", v=v, idx=[{"i": 0}, {"i": 0}], val={"one": a})                  # ValueError: 2 indices
    s.op(op="setitem", v=v, idx=[{"i": 0}, {"i": 0}, {"i": 0}], val={"one": s.alloc(3, 1)})   # wrong ncols
    s.op(op="setitem", v=v, idx=[{"i": 0}, {"i": 0}, {"i": 0}], val={"one": {"bad": "1d", "d1": 2}})
    s.op(op="set_flattened", v=v, f="x", vals=["1"], via="method", as_list=False)       # wrong length
    s.op(op="set_flattened", v=v, f="nope", vals=["1", "2"], via="setitem", as_list=False)   # KeyError
    s.op(op="set_flattened", v=v, f="x", vals=["5", "6"], via="method", as_list=False)
    s.op(op="view_make", v=v, f="nope")
    c = s.copy(v)
    s.fop(c, "nope", "add", "1", via="item")
    s.fop(c, "y", "add", "1", via="item")
    s.op(op="add_fields", v=v, names=["z"], as_str=True, as_tuple=False)
    s.op(op="getitem", v=v, idx=[{"i": 0}, {"i": 1}, {"i": 0}])                         # IndexError
    s.op(op="setitem", v=v, idx=[{"s": [None, None, None]}], val={"many": [s.alloc(3, 1, base=2), s.alloc(2, 1), s.alloc(3, 2, base=4), s.alloc(3, 1, base=5)]})   # 2nd value bad: first cell assigned
    s.fop(v, "z", "add", "1", via="item")
    s.op(op="remove_fields", v=v, names=["nope"], as_str=True)
    s.op(op="writeback", v=v, f="x")
    return [s]


def _two_alive():
    """two vectors with the same schema and shape alive at once; every call repeated"""
    s = S("two-alive-repeated")
    u = s.from_shape([2, 2], fields=["x", "y"])
    v = s.from_shape([2, 2], fields=["x", "y"])
    s.fill(u, [2, 2], 2, rowcounts=[2, 1])
    s.fill(v, [2, 2], 2, rowcounts=[2, 1], ints={0})
    fu, fv = s.view(u, "x"), s.view(v, "x")
    for rnd in range(2):
        s.vflat(fu)
        s.vflat(fv)
        s.op(op="keep_all", v=u)
        s.op(op="keep_all", v=v)
        s.fop(u, "x", "add", "1", via="item")
        s.vflat(fv)
        s.vflat(fu)
        s.fop(v, "x", "mul", "2", via="view")
        s.op(op="getitem", v=u, idx=[{"i": 1}, {"i": 1}])
        s.op(op="getitem", v=v, idx=[{"i": 1}, {"i": 1}])
        su = s.getitem_vec(u, [{"i": 1}])           # slices share the cells of their source
        sv = s.getitem_vec(v, [{"s": [None, None, -1]}, {"i": 0}])
        s.fop(su, "x", "add", "3", via="item")      # in-place through the slice: the source's field must follow
        s.vflat(fu)
        s.fop(sv, "y", "mul", "2", via="view")
        s.op(op="view_make", v=v, f="y")
        s.nview += 1
        s.vflat(s.nview - 1)
        s.copy(u)
        s.op(op="setitem", v=u, idx=[{"i": 0}, {"i": 1}], val={"one": s.alloc(2 + rnd, 3, base=30 + rnd)})
        s.op(op="add_fields", v=u, names=["z" + str(rnd)], as_str=True, as_tuple=False)
    s.op(op="remove_fields", v=u, names=["z0", "z1"], as_str=False)
    s.vflat(fu)
    s.vflat(fv)
    return [s]


def fixed_histories():
    out = []
    out.append(_copy_nd([2, 3, 2], "3d"))
    out.append(_copy_nd([2, 1, 2, 2], "4d"))
    out.append(_copy_nd([3], "1d"))
    out.append(_fancy_nd([5], "1d"))
    out.append(_fancy_nd([3, 4], "2d"))
    out.append(_fancy_nd([3, 2, 3], "3d"))
    out.append(_fancy_nd([2, 3, 2, 2], "4d"))
    out.append(_one_cell([1], [0], "shape1"))
    out.append(_one_cell([1, 1, 1], [0, 0, 0], "shape111", is_int=True))
    out.append(_one_cell([3], [2], "last-of-3"))
    out.append(_one_cell([2, 2], [1, 0], "2x2"))
    out += _many_fields()
    out += _sizes()
    out += _zero_rows()
    out += _rejected()
    out += _two_alive()
    return [(s.name, s.ops) for s in out]


def _subst(j, amap):
    if isinstance(j, dict):
        if "p" in j and len(j) == 1:
            return {"p": amap.get(j["p"], 1 << 30)}
        return {k: _subst(x, amap) for k, x in j.items()}
    if isinstance(j, list):
        return [_subst(x, amap) for x in j]
    return j


def script_iter(ops):
    """iterator factory for `run_ops`: `{"p": k}` in a script means "the k-th array allocated by this script"; retrieval
    ops add the cells they return to the caller's pool, so the pool number is bound when the alloc is executed"""
    def it(w):
        amap, na = {}, 0
        for op in ops:
            if op["op"] == "alloc":
                amap[na] = len(w.pool)
                na += 1
                yield dict(op)
            else:
                yield _subst(op, amap)
    return it
