"""Importable AutoSerialize classes for the serializer checks (load() resolves classes by
module + qualname, so they must live in an importable module)."""
from quantem.core.io.serialize import AutoSerialize


class SA(AutoSerialize):
    pass


class SB(AutoSerialize):
    pass


class SC(AutoSerialize):
    pass


CLASSES = {"SA": SA, "SB": SB, "SC": SC}
