"""Importable AutoSerialize classes for the serializer checks (load() resolves classes by
module + qualname, so they must live in an importable module)."""
from quantem.core.io.serialize import AutoSerialize


class SA(AutoSerialize):
    pass


class SB(AutoSerialize):
    pass


class SC(AutoSerialize):
    pass


CLASSES = {"SA": SA, "SB": SB, "SC": SC}


import torch


class HybridM(torch.nn.Module, AutoSerialize):
    """an object that is both a torch module and an AutoSerialize object (as the library's own
    object / probe / dataset models are)"""

    def __init__(self):
        super().__init__()
        self.lin = torch.nn.Linear(2, 2)
        self.count = 3
        self.note = "keep"
