"""C19, growth round 6: FIXED blocks of histories (in every run, independent of VERIF_SEED) for the input classes of
the round-6 themes — size / count thresholds, both directions of an asymmetry, performance shortcuts:

  A  long `update_defaults` histories (13 layers, each holding only part of a nested section, section and keys spelled
     with '-' in one layer and '_' in the next), each layer followed by `refresh` and reads of sibling keys
  B  both directions of the '-' / '_' equivalence on EVERY operation (stored with '_' addressed with '-' and vice versa;
     top level, below a section, below a section that is itself respelled, three levels deep)
  C  two (and four) configuration stores alive at once through the public `config=` / `defaults=` parameters, the
     global store among them: same keys, different values, lists of equal length; `refresh(config=other)` followed by
     `set(..., config=other)` (sections must not be shared by reference with the accumulated defaults)
  D  many keys (14 in one call; k1 / k10 … k13 are prefixes of each other), deep keys (6 levels), keys and paths that
     are prefixes of each other
  E  `with config.set` blocks nested four deep, bodies that write, inner blocks left by an exception
  F  device indices with two digits (cuda:10, 11 of 12 devices; the index AT the count; three digits)
  G  the yaml loading path with 14 files (10.yaml sorts before 2.yaml), sections respelled between files
  H  `set(arg)` with an argument that is not a mapping

A–B, D–G run through `c19.run_sequence` (model comparison + every predicate of the property); C and H are evaluated
on the real module against the reference map / the documented behaviour.
"""
import copy
import json

TD = "torch.device:"
ENV12 = {"cuda": True, "mps": False, "n": 12, "cur": 11}
ENV11 = {"cuda": True, "mps": False, "n": 11, "cur": 10}
R6_DEVICES = ["cuda:9", "cuda:10", "cuda:11", "cuda:12", "cuda:13", "cuda:100", "cuda:010", "cuda:1_0", "cuda:1 0", 9, 10, 11, 12, 13, 99,
              100, 127, TD + "cuda:10", TD + "cuda:11", TD + "cuda:12", TD + "cuda:9", "cuda", "gpu", None, "cuda:1", "cuda:2",
              1, 2, "cuda:0", 0, "CUDA:10", "cuda:10 ", "10", "cuda10"]


def _b():
    from . import c19
    return c19


def nest(key, v):
    out = v
    for seg in reversed(key.split(".")):
        out = {seg: out}
    return out


def S(*items, **kw):
    return {"op": kw.get("op", "set"), "arg": [[k, v] for k, v in items], "kwargs": []}


def G(key, **kw):
    return dict({"op": "get", "key": key}, **kw)


def UD(new):
    return {"op": "update_defaults", "new": new}


REFRESH = {"op": "refresh"}
EXIT = {"op": "exit"}
EXIT_RAISE = {"op": "exit", "raise": True}


def altp(key):
    b = _b()
    return ".".join(b.alt(s) for s in key.split("."))


# ------------------------------------------------------------------------------------------------ A
def long_defaults(refresh_each):
    ops = []
    n = 13
    for i in range(n):
        sec = "r6_sec" if i % 2 == 0 else "r6-sec"
        sub = {f"k{i}": i, ("sh_ared" if i % 3 else "sh-ared"): f"v{i}"}
        if i % 4 == 1:
            sub["deep"] = {f"x{i}": i, "y": {("z_z" if i % 8 == 1 else "z-z"): i}}
        if i >= 10:          # a default registered ten layers ago is registered again (the configuration still holds the old default)
            sub[f"k{i - 10}"] = f"late{i - 10}"
        ops.append(UD({sec: sub, f"top{i}": i}))
        if refresh_each:
            ops.append(REFRESH)
        for j in sorted({0, i // 2, i}):
            ops.append(G(f"r6-sec.k{j}" if j % 2 else f"r6_sec.k{j}"))
        ops.append(G("r6_sec.sh-ared"))
        ops.append(G("r6-sec.sh_ared"))
        if i >= 1:
            ops.append(G("r6-sec.deep.y.z_z"))
            ops.append(G("r6_sec.deep.x1"))
        if i == 5:
            ops.append(S(("r6-sec.k3", "user"), ("r6_sec.deep.y.z-z", "userz")))
        if i == 7:
            ops.append(S(("r6_sec.sh_ared", "mine")))
        if i in (6, 8, 10):
            ops += [G("r6_sec.k3"), G("r6-sec.deep.y.z-z"), G(f"top{i - 1}"), G("r6_sec.k10", default="D")]
    ops += [G("r6_sec.sh-ared"), REFRESH]
    ops += [G(f"r6_sec.k{j}") for j in range(n)] + [G(f"top{j}") for j in (0, 9, 10, 11, 12)]
    ops += [G("r6_sec.k3"), G("r6-sec.deep.y.z-z"), G("r6_sec.sh-ared"), G("r6_sec.deep.x1"), G("r6_sec.deep.x9"), G("r6-sec")]
    return ops


# ------------------------------------------------------------------------------------------------ B
def spelling_histories():
    for stored, addr in (("a_b", "a-b"), ("a-b", "a_b")):
        for pre in ("", "r6s.", "r6_t.", "r6-t.", "r6s.m-n.", "r6s.m_n.q."):
            ks = pre + stored
            ka = (altp(pre[:-1]) + "." if pre else "") + addr
            ops = [S((ks, 1)), G(ka), G(ks), S((ka, 2)), G(ks), G(ka),
                   S((ka, 3), op="with"), G(ks),
                   S((ka, 4), op="enter"), G(ks), G(ka), EXIT, G(ks), G(ka),
                   S((ks, 4), op="enter"), G(ka), S((ka, 5)), G(ks), EXIT_RAISE, G(ka),
                   UD(nest(ks, "D1")), G(ka), UD(nest(ka, "D2")), G(ks), REFRESH, G(ka), G(ks),
                   S((ka, 6)), G(ks), UD(nest(ks, "D3")), G(ka), REFRESH, G(ks), G(ka),
                   UD(nest(ka, "D4")), G(ks), G(ka), S((ks, {"in_ner": 1, "o": 2})), G(ka + ".in-ner"), G(ks + ".o"),
                   S((ka + ".in-ner", 7)), G(ks + ".in_ner"), G(ka + ".o"), REFRESH, G(ks), G(ka, default="D")]
            if "-" not in ka:
                ops += [{"op": "set", "arg": [], "kwargs": [[ka.replace(".", "__"), 8]], "via": "kwargs-only"}, G(ks), G(ka)]
            if "-" not in ks:
                ops += [{"op": "set", "arg": [], "kwargs": [[ks.replace(".", "__"), 9]]}, G(ks), G(ka)]
            yield ops


# ------------------------------------------------------------------------------------------------ D
def many_and_deep():
    ks = [f"r6m.k{i}" for i in range(14)]
    yield [S(*[(k, i) for i, k in enumerate(ks)])] + [G(k) for k in ks] + \
          [UD({"r6m": {f"k{i}": f"d{i}" for i in range(14)}, "r6m_x": {"k1": "x"}}), G("r6m.k1"), G("r6m.k10"), G("r6m-x.k1"), REFRESH] + \
          [G(k) for k in ks] + [S(("r6m.k1", "u1")), G("r6m.k10"), G("r6m.k11"), G("r6m.k1"), S(("r6m.k10", "u10")), G("r6m.k1"), G("r6m.k10"),
                                S(*[(f"r6n{i}", i) for i in range(12)], op="with"), G("r6n11", default="gone"), G("r6m.k13"),
                                REFRESH, G("r6m.k1"), G("r6m.k10"), G("r6m.k13")]
    d = "r6d.l1.l2.l3.l4."
    yield [S((d + "leaf_x", 1)), G(d + "leaf-x"), S(("r6d.l1.l2.l3.sib", 2)), G(d + "leaf_x"), G("r6d.l1.l2.l3.sib"),
           S((d + "leaf-x", 9), op="with"), G(d + "leaf_x"), S((d + "leaf-x", 8), (d + "m.n.o", 1), op="enter"), G(d + "m.n.o"), G(d + "leaf_x"),
           EXIT, G(d + "leaf_x"), G(d + "m", default="gone"), UD(nest(d + "other", 3)), UD(nest("r6d.l1.l2.o2", 4)), G(d + "other"), G(d + "leaf-x"),
           REFRESH, G(d + "other"), G("r6d.l1.l2.o2"), G(d + "leaf_x", default="gone"), G("r6d.l1.l2.l3.sib", default="gone")]
    # keys that are string prefixes of each other; a section and a scalar with prefix-related names
    yield [S(("r6p", 1), ("r6px", 2), ("r6p_x", 3), ("r6", 4), ("r6p-", 5)), G("r6p"), G("r6px"), G("r6p-x"), G("r6"), G("r6p_"),
           S(("r6p-x", 6)), G("r6p"), G("r6px"), G("r6p_x"), UD({"r6p": "d", "r6px": "dx", "r6pxy": "dxy"}), G("r6p"), G("r6pxy"),
           REFRESH, G("r6p"), G("r6px"), G("r6pxy"), G("r6p_x", default="gone"), G("r6", default="gone")]
    # paths that are prefixes of each other
    yield [S(("r6q.a.b", 1), ("r6q.ab", 2), ("r6q.a.bc", 3)), G("r6q.a"), G("r6q.ab"), G("r6q.a.b"), S(("r6q.a", 5)), G("r6q.a"), G("r6q.ab"),
           G("r6q.a.b", default="gone"), S(("r6q", {"a": {"b": 6}})), G("r6q.a.b"), G("r6q.ab", default="gone")]
    yield [S(("r6q.a", 1)), S(("r6q.a.b", 2)), G("r6q.a"), G("r6q.a.b", default="D")]       # TypeError: scalar on the path


# ------------------------------------------------------------------------------------------------ E
def nested_blocks():
    yield [S(("r6w.a", 0), ("r6w.b", 0), ("r6w.c_c", 0), ("r6v", 0)),
           S(("r6w.a", 1), ("r6n1", 1), op="enter"), S(("r6w.b", 2), ("r6w.c-c", 2), op="enter"),
           S(("r6w.a", 3), ("r6n3.x.y", 3), op="enter"), S(("r6v", 4), op="enter"),
           G("r6w.a"), G("r6v"), G("r6w.c_c"), S(("r6body", 1)), UD({"r6ud": 1}), S(("r6w.d", 7), op="with"),
           EXIT_RAISE, G("r6v"), G("r6w.a"),
           EXIT, G("r6w.a"), G("r6n3.x.y", default="gone"), G("r6n3", default="gone"),
           EXIT_RAISE, G("r6w.b"), G("r6w.c-c"), G("r6w.a"),
           EXIT, G("r6w.a"), G("r6n1", default="gone"), G("r6body"), G("r6ud"), G("r6w")]
    # the same key set at every level; the innermost blocks rejected (device) before entering
    yield [S(("r6x", 0)), S(("r6x", 1), op="enter"), S(("r6x", 2), op="enter"), S(("r6x", 3), op="enter"),
           S(("r6x", 4), ("device", "tpu"), op="enter"), G("r6x"), S(("device", -1), ("r6x", 5), op="enter"), G("r6x"),
           EXIT, G("r6x"), EXIT_RAISE, G("r6x"), EXIT, G("r6x")]
    # five levels, each inserting below the section the level above inserted
    yield [S(("r6z.a", 1), op="enter"), S(("r6z.b.c", 2), op="enter"), S(("r6z.b.d.e", 3), op="enter"), S(("r6z.b.d.f.g", 4), op="enter"),
           S(("r6z.b.d.f.h-h", 5), op="enter"), G("r6z.b.d.f.h_h"), EXIT_RAISE, G("r6z.b.d.f"), EXIT, G("r6z.b.d"), EXIT, G("r6z.b"), EXIT, G("r6z"),
           EXIT, G("r6z", default="gone")]


# ------------------------------------------------------------------------------------------------ F
def device_histories():
    dv = lambda v, **kw: dict({"op": "set", "arg": [["device", v]], "kwargs": []}, **kw)   # noqa: E731
    yield ENV12, [dv("cuda:10"), G("device"), dv(11), G("device"), dv("cuda:12"), G("device"), dv(12), G("device"),
                  dv(TD + "cuda:10", via="set_device"), G("device"), dv("cuda"), G("device"), dv("cuda:100"), G("device"),
                  dv("cuda:9"), G("device"), UD({"device": "cuda:10", "r6dev": 1}), G("device"), REFRESH, G("device"),
                  UD({"device": 12}), G("device"), REFRESH, G("device"),
                  S(("device", 11), ("r6k", 1), op="with"), G("device"), S(("device", "cuda:1"), op="enter"), dv(10), G("device"), EXIT, G("device")]
    yield ENV11, [dv("cuda:10"), G("device"), dv("cuda:11"), G("device"), dv(11), G("device"), dv(None), G("device"), dv("gpu"), G("device"),
                  dv(1), G("device"), dv("cuda:1"), G("device"), dv(TD + "cuda:11"), G("device")]


# ------------------------------------------------------------------------------------------------ G
def yaml_histories():
    entries = [[f"{i}.yaml", {"dict": {"r6y": {"last": i, f"f{i}": i}, "order": i}}] for i in range(1, 13)]
    entries += [["10.json", {"dict": {"r6y": {"j": 10}}}], ["2.yml", {"dict": {"r6y": {"last": "yml", "m-n": {"p_q": 2}}}}]]
    yield [UD({"r6y": {"last": "D", "dflt": 1}}), {"op": "refresh_path", "path": {"kind": "dir", "entries": entries}},
           G("r6y.last"), G("r6y.f10"), G("r6y.f9"), G("r6y.dflt"), G("order"), G("r6y.j"), G("r6y.m_n.p-q"), REFRESH, G("r6y.last"),
           G("r6y.f10", default="gone")]
    entries = [["a.yaml", {"dict": {"r6_y": {"a-b": 1, "keep": 1}}}], ["b.yaml", {"dict": {"r6-y": {"a_b": 2, "l1": {"l2": {"l3": 3}}}}}],
               ["c.yml", {"dict": {"r6_y": {"l1": {"l2": {"l4": 4}}}}}]]
    yield [{"op": "refresh_path", "path": {"kind": "dir", "entries": entries}}, G("r6-y.a_b"), G("r6_y.a-b"), G("r6_y.keep"), G("r6-y.l1.l2.l3"),
           G("r6_y.l1.l2.l4"), S(("r6-y.l1.l2.l3", 9)), G("r6_y.l1.l2.l3"), REFRESH, G("r6_y", default="gone")]


# ------------------------------------------------------------------------------------------------ C
def two_stores(ctx, cfgmod, module_state):
    """several stores alive at once: the module's own and dictionaries handed in through `config=` / `defaults=`.
    Every store must behave as its own last-writer-wins map (reference map per store), whatever was done to the others."""
    b = _b()
    cfgmod.config.clear()
    cfgmod.config.update(copy.deepcopy(module_state[0]))
    cfgmod.defaults[:] = copy.deepcopy(module_state[1])
    stores = {"G": (cfgmod.config, cfgmod.defaults), "A": ({}, []), "B": ({}, []), "O": ({}, cfgmod.defaults)}
    refs = {n: b.Ref(c, d) for n, (c, d) in stores.items()}
    refs["O"].defaults = refs["G"].defaults        # O is refreshed from the global defaults (shared list)
    script = []
    for i in range(4):
        for X in "GAB":
            script.append((X, "ud", {"r6c": {"n": f"{X}{i}", f"k{i}": i, "sub": {"s_s": f"{X}{i}"}}, "r6flat": f"{X}{i}"}))
        for X in "BAG":
            script.append((X, "get", "r6c.n"))
    script += [("A", "set", [["r6c.n", "userA"]]), ("A", "ud", {"r6c": {"n": "A9"}}), ("B", "ud", {"r6c": {"n": "B9"}}),
               ("A", "get", "r6c.n"), ("B", "get", "r6c.n"), ("G", "get", "r6c.n"), ("A", "refresh",), ("A", "get", "r6c.n"),
               ("O", "refresh",), ("O", "set", [["r6c.n", "hot"], ["viz.cmap", "hot"], ["r6c.sub.s-s", "hot"], ["r6c.new", 1]]),
               ("G", "get", "r6c.n"), ("G", "refresh",), ("G", "get", "r6c.n"), ("G", "get", "r6c.sub.s_s"), ("G", "get", "viz.cmap"),
               ("O", "get", "r6c.n"),
               ("G", "set", [["r6c.n", "userG"], ["r6c.sub.s-s", "userG"]]), ("O", "refresh",), ("O", "get", "r6c.n"), ("G", "get", "r6c.n"),
               ("B", "set", [["r6c.sub.s-s", "userB"]]), ("B", "refresh",), ("B", "get", "r6c.sub.s_s"), ("A", "get", "r6c.sub.s_s"),
               ("G", "refresh",), ("G", "get", "r6c.sub.s-s"), ("A", "ud", {"r6c": {"k0": "late"}}), ("B", "ud", {"r6c": {"k0": "late"}}),
               ("A", "refresh",), ("B", "refresh",), ("A", "get", "r6c.k0"), ("B", "get", "r6c.n"), ("G", "get", "r6c.k0")]
    for i, step in enumerate(script):
        X, kind = step[0], step[1]
        c, d = stores[X]
        ref = refs[X]
        case = {"stream": "r6-two-stores", "step": i, "script": [list(s) for s in script[: i + 1]]}
        got = None
        try:
            if kind == "ud":
                if X == "G":
                    cfgmod.update_defaults(copy.deepcopy(step[2]))
                else:
                    cfgmod.update_defaults(copy.deepcopy(step[2]), config=c, defaults=d)
            elif kind == "set":
                if X == "G":
                    cfgmod.set(dict(step[2]))
                else:
                    cfgmod.set(dict(step[2]), config=c)
            elif kind == "refresh":
                if X == "G":
                    cfgmod.refresh()
                elif X == "O":
                    cfgmod.refresh(config=c)
                else:
                    cfgmod.refresh(config=c, defaults=d)
            else:
                got = cfgmod.get(step[2]) if X == "G" else cfgmod.get(step[2], config=c)
        except Exception as e:  # noqa
            ctx.pred_fail("two-stores-raises", f"{kind} on store {X} raised {type(e).__name__} on plain keys and values", case,
                          observed=type(e).__name__, required="no exception")
            return
        ctx.count()
        ctx.dist["r6:two-stores:" + kind] += 1
        # reference maps
        if kind == "ud":
            n = b.norm(copy.deepcopy(step[2]))
            cur = {}
            for dd in ref.defaults:
                b.ref_merge(cur, copy.deepcopy(dd))
            ref.defaults.append(n)
            b.ref_update_defaults(ref.cfg, copy.deepcopy(n), cur)
        elif kind == "set":
            for k, v in step[2]:
                ref.assign([b.nk(s) for s in k.split(".")], v)
        elif kind == "refresh":
            cur = {}
            for dd in ref.defaults:
                b.ref_merge(cur, copy.deepcopy(dd))
            ref.cfg = cur
        else:
            want = ref.cfg
            for s in step[2].split("."):
                want = want[b.nk(s)]
            if b.norm(got) != want:
                ctx.pred_fail("two-stores-get", f"get({step[2]!r}) on store {X} does not return the most recently set value of that store",
                              case, observed=got, required=want)
                return
        for Y, (cy, dy) in stores.items():
            if b.norm(cy) != refs[Y].cfg:
                ctx.pred_fail("two-stores-config", f"after {kind} on store {X} the configuration of store {Y} differs from its last-writer-wins map",
                              case, observed=json.loads(json.dumps(b.norm(cy), default=str)), required=refs[Y].cfg)
                return
            if [b.norm(x) for x in dy] != refs[Y].defaults:
                ctx.pred_fail("two-stores-defaults", f"after {kind} on store {X} the accumulated defaults of store {Y} have changed "
                              "(refresh would no longer restore them)", case,
                              observed=json.loads(json.dumps([b.norm(x) for x in dy], default=str)), required=refs[Y].defaults)
                return
    ctx.mark(("r6", "two-stores"))


# ------------------------------------------------------------------------------------------------ H
def non_mapping_arg(ctx, cfgmod, module_state):
    cfgmod.config.clear()
    cfgmod.config.update(copy.deepcopy(module_state[0]))
    for arg in ([("r6h", 1)], "r6h=1", 5, ("r6h", 1), 0.5, True):
        before = copy.deepcopy(cfgmod.config)
        try:
            cfgmod.set(arg)
            out = "ok"
        except Exception as e:  # noqa
            out = type(e).__name__
        ctx.count()
        ctx.dist["r6:set-nonmapping:" + out] += 1
        if out != "TypeError" or cfgmod.config != before:
            ctx.disagree("set-non-mapping", {"stream": "r6-non-mapping", "arg": repr(arg)}, {"err": "TypeError", "config": "unchanged"},
                         {"res": out, "config_changed": cfgmod.config != before}, note="set(arg) with an argument that is not a mapping")


def validate_two_digit(ctx, drv, cfgmod, real_env):
    b = _b()
    for env in (ENV12, ENV11):
        drv.ask({"op": "init", "env": env, "config": b.to_tree({}), "defaults": []})
        with b.device_env(cfgmod, env, real_env):
            for v in R6_DEVICES:
                try:
                    out = cfgmod.validate_device(b.real(v))
                    impl = {"ok": [b.to_tree(out[0]), out[1]]}
                except Exception as e:  # noqa
                    impl = {"err": b.err_name(e)}
                m = drv.ask({"op": "validate_device", "v": b.to_tree(v)})["r"]
                ctx.count()
                ctx.dist["r6:validate_device:" + ("ok" if "ok" in impl else impl["err"])] += 1
                ctx.mark(("r6-validate_device", env["n"], "ok" if "ok" in impl else impl["err"], type(v).__name__))
                case = {"stream": "r6-validate-device", "env": env, "v": v}
                if m != json.loads(json.dumps(impl)):
                    ctx.disagree("validate_device", case, m, impl)
                want = b.ref_device(v, env)
                if want is None and "ok" in impl:
                    ctx.pred_fail("device-accepts-malformed", "validate_device accepted a malformed / unavailable device request", case,
                                  observed=impl, required="rejection (exception)")


def run_all(ctx, drv, cfgmod, env, module_state):
    b = _b()
    n0 = ctx.dist.get("op:get", 0)
    for init in ("empty", "module"):
        for refresh_each in (True, False):
            b.run_sequence(ctx, drv, cfgmod, long_defaults(refresh_each), init, env, module_state, env)
        for gen in (spelling_histories, many_and_deep, nested_blocks, yaml_histories):
            for ops in gen():
                b.run_sequence(ctx, drv, cfgmod, ops, init, env, module_state, env)
    for senv, ops in device_histories():
        b.run_sequence(ctx, drv, cfgmod, ops, "module", senv, module_state, env)
    validate_two_digit(ctx, drv, cfgmod, env)
    two_stores(ctx, cfgmod, module_state)
    non_mapping_arg(ctx, cfgmod, module_state)
    ctx.extra["r6_fixed_block_gets"] = ctx.dist.get("op:get", 0) - n0
