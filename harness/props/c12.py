"""C12 — one aberration surface across polar, Cartesian, gradient and fitted forms.

Tie to the source: `pregenerate()` re-translates the formula functions of complex_probe.py into
Generated/Aberration.lean on every run (harness/translator/aberr2lean.py); the theorems in
Props/C12.lean are re-checked against that text.  The translator (and the hand models of the alias
code and of the fit) are validated by the Float correspondence below on the real torch functions.
The property predicates (mutual consistency of the real functions, autograd gradients, alias sign,
fit round trip) are the failing-input search."""
import math
import types

LEVEL = "proof"
EXTRA_PROPS = ["QuantemModel.Props.C12Ext"]   # growth 6: the conversions for every max_order (loop model = translated text at 5)
MANIFEST_ENTRY = {
    "category": "proof",
    "text": "Lean 4 theorems at ℝ about the *translated* source (Python ast → Lean partial evaluator, regenerated from the repo on every run): the polar series equals the spec χ=(2π/λ)Σ α^{n+1}/(n+1)·C_nm cos(m(φ−φ_nm)) over the 14-entry (n,m) table = all 25 symbols; each symbol individually (single_symbol, every_symbol_contributes) in surface AND gradients; the `if any(k in coefs…)` guards, translated faithfully with a presence predicate, are transparent for every set of present keys (guards_transparent) and list every symbol (guard_complete); Σ cart_l·basis_l = χ with cart = polar_to_cartesian(polar); the basis loop translated over a DYNAMIC label list returns column i = basis function of labels[i] for every list (basis_column_order); Cartesian→polar→Cartesian is the identity on all 25 labels, polar→Cartesian→polar returns the coefficients for C>0, mφ∈(−π,π] and otherwise still the identical surface; merge adds the deltas' basis expansion; dchi_dk = λ·∂χ/∂α, α·dchi_dphi = λ·∂χ/∂φ and (dchi_dx, dchi_dy) = λ·∇_{x,y}χ through the source's own sqrt/atan2 polar coordinates at every point but the origin (generated aberration_surface_cartesian_gradients, branch cut via 2π-periodicity); the key/value loop bodies of the three alias implementations, translated, equal the hand model's steps for every key/value (alias_steps_are_translated, defocus_sign_in_source) and 'defocus' ↦ C10 = −defocus for every input dict by induction; the fit END TO END: _passively_rotate_grid, polar_coordinates, _torch_polar (on an abstract svd meeting its spec) and the whole extraction part of fit_aberrations_from_shifts are translated; lateral shifts of a quadratic set are basis@(R_{−θ}·A) at every pixel; a full-column-rank basis has non-zero Gram determinant and the normal equations return the matrix; the translated _torch_polar returns the RIGHT polar factor = the unique polar decomposition (torch_polar_is_polar, polar_decomposition_unique); the translated extraction returns (C10,C12,φ12,θ) for every |θ|<π/2 together with every C12>0, |C10|>C12, φ12∈(−π/2,π/2] (fit_roundtrip_translated_polar). THE ALIAS CODE AS STATE (round 5): the probe_params setter as a state machine on _probe_params with values float() rejects — an assignment is rejected iff a predicate of the dict alone fails, a rejected assignment (key check OR part-way through the conversions) leaves the whole state unchanged, rejected assignments can be deleted from EVERY history (probe_params_rejected_calls_are_noops), what an accepted one stores is the hand model of the defocus theorems (probe_params_setter_is_hand_model), and the last accepted defocus = x gives C10 = −x after any history (probe_params_history_defocus); HyperparameterState with the write-backs of optimize_/grid_search_hyperparameters and the cross-correlation / least-squares fits: for every initial dict, every history of operations and every override only the 25 polar symbols are ever handed to the surface code (hstate_only_symbols_reach_surface), and searching over `defocus` is searching over C10 = −defocus (entry_points_alias_eq_canonical). Float correspondence of every generated definition (guards and dynamic label lists included), the alias models, the two state machines (whole state after every step of generated histories, rejected steps included) and the fit against the real torch code; autograd/consistency predicates, alias-form-vs-canonical-form runs of every DirectPtychography entry point on a real tiny instance, and same-prior-twice merges on the real code as failing-input search. ROUND 6 (Props/C12Ext.lean): the two conversions as the LOOPS of the source with their max_order argument (Model/AberrationOrder.lean): exactly the harmonics 1 ≤ n ≤ max_order, m ≤ n+1, m ≡ n+1 (mod 2) are visited for EVERY max_order (mem_harmonics; the top harmonic m = n+1 of every order up to and including max_order: top_harmonic_visited; nothing beyond: no_harmonic_beyond), a smaller max_order returns a prefix of a larger one (p2c_order_prefix, c2p_order_prefix, all sizes), and at 5 the loop model IS the translated text (p2c_order5_is_translated, c2p_order5_is_translated, any carrier) so every explicit max_order ≤ 5 returns a prefix of the lists the round-trip theorems speak about; aberration_surface_grad at a grid pixel (Model/AberrationGrid.lean): the parallax shifts are that gradient / 2π (lateral_shift_is_surface_grad) and it equals λ·∇χ in the scattering-angle coordinates of the (rotated) pixel for every λ > 0, rotation, coefficient set and pixel but the origin (surface_grad_true_gradient = front end composed with cartesian_gradient_true). New correspondence streams: order (explicit max_order 0..5, keyword and positional), gradgrid (aberration_surface_grad on H≠W grids), twin (same coefficients accepted twice — validators, standardize, two HyperparameterState incl. copy(), two ProbePixelated, two DirectPtychography — the first result / object mutated or cleared in between), fixed blocks for the top harmonics, the atan2 branch cut and every quadrant, both signs of C10 × astigmatism angle × rotation × H<W / H>W in the fit.",
    "note": "Trusted: Lean kernel + propext/Classical.choice/Quot.sound; the translator (validated by the correspondence on the same functions); IEEE rounding and torch are outside the theorems. Hand-modelled and only tied by correspondence: torch.linalg.lstsq (as normal equations), torch.linalg.svd (abstract, assumed to meet IsSVD), the k-grid/mask plumbing of the fit (pinned to a template by the translator) and of _return_lateral_shifts (fftfreq grid, `/2/np.pi`), the plumbing around the alias loops (key validation, nested-dict recursion, zero fill, float32 conversion). Labels outside the 25-label table (e.g. 'C77_a') are outside the model. Gradient theorems are partial derivatives (HasDerivAt), not a joint Fréchet derivative. Round 5/6: the state machines (PState, HState) are hand models tied by correspondence only (still not translated / traced — open end of round 6); the grid glue of aberration_surface_grad (fftfreq, wavelength from energy) is hand-written and tied by the gradgrid stream; the search write-back is modelled GIVEN the best-parameter dict the search returns (optuna / the grid loop themselves are not modelled; the real methods run on an attribute stub whose reconstruct() only resolves the coefficients, and on a real tiny DirectPtychography in the entry stream); nested dicts inside probe_params are modelled to depth 1; the top-level 'defocus' REPORT of probe_params is not kept in step with C10 by the code (probe_params_reported_defocus_counterexample, replayed every run) — no accepted alias is misread, so this is recorded, not flagged.",
    "technique": "Lean 4 proof over translator output (Python ast → Lean, regenerated every run) + model-vs-implementation Float correspondence + autograd/consistency predicates on the real code",
}
RULE = ("alias values are drawn over the numeric forms in FORMS (Python int/float/bool, NumPy scalars and 0-d arrays, "
        "torch 0-d tensors; signed/unsigned/float/bool, edges included) and `defocus = d` must give C10 = -d as real numbers; "
        "a case is one coefficient set evaluated at several (α,φ) points (formula stream), one input dict for one alias "
        "implementation (alias stream), or one (grid, mask, θ, C10, C12, φ12) fit; distinct non-trivial = distinct "
        "(stream, dtype, regime, set of aberration orders present, #keys bucket, alias/None/nested usage, outcome, "
        "θ kind, sign of C10) with at least one non-zero coefficient; round 5: a pphist case is a history of 2-6 probe_params "
        "assignments on one object (stub or real ProbePixelated; values in 10 numeric forms incl. numeric strings, 0/-0.0/None, and 8 "
        "forms float() rejects; unknown keys; nested aberration_coefs), an hstate case a HyperparameterState with 2-6 operations "
        "(reads with overrides, clears, grid/optuna search write-backs through the real methods), an entry case one DirectPtychography "
        "entry point called with the alias form and the canonical form of the same coefficients, a mergehist case one tensor prior "
        "merged twice; distinct = (stream, object kind, max order, #steps, #rejected, error classes, nesting / op kinds / entry, keys); "
        "round 6 (harness/props/c12_g6.py, FIXED blocks first, independent of VERIF_SEED): an order case is one polar set converted at one explicit "
        "max_order k in 0..5 (all symbols / only the top harmonics / top harmonics with m·φ = ±π), a gradgrid case one (gpts, sampling, energy, "
        "rotation, coefficient set) of aberration_surface_grad, a twin case one coefficient dict accepted twice by one routine / two objects with "
        "the first result or object spoiled in between (clear / set / del / in-place scale); distinct = (stream, k or kind, variant, orders, H vs W, rotation)")
TRUSTED = ["harness/translator/aberr2lean.py (partial evaluator, grammar in its docstring); cross-checked by the Float correspondence on every translated function",
           "torch elementwise kernels, torch.linalg.lstsq/svd, torch autograd (the gradient oracle of the failing-input search)",
           "harness/props/c12_ext.py: the layering oracle (last writer wins through canonical names) and the attribute stub standing for DirectPtychography in the hstate stream; optuna's samplers",
           "harness/props/c12_g6.py: the twin oracle (each object / result denotes its OWN input, whatever happened to its twin); `electron_wavelength_angstrom` (taken from the real code in the gradgrid stream)"]
ASSUMPTIONS = ["float `1/3`, `0.5`, … in the source are read as exact rationals in the ℝ theorems (IEEE rounding is measured, not proved)",
               "`if any(k in coefs …)` guards are emitted both unguarded and faithfully (`…_guarded`, run by the driver); guards_transparent proves the two agree for every set of present keys when absent keys read 0",
               "a coefficient value is modelled as a real number with a numeric type (TVal: exact | unsigned b | signed b); `float(v)` reads it, `-v` negates in that type; NumPy/torch bool negation (which raises) is not modelled",
               "alias loop bodies are translated by evaluating them on the finite key universe (all symbols and aliases) plus one sentinel for any other key; sound because the translator rejects any use of the key other than ==, `in`, table lookup and dict store",
               "remainder(x, 2π) in fit_aberrations_from_shifts is modelled on [-2π, 4π) only; remainder_model_exact proves the model equals x−⌊x/y⌋y there and that both call sites stay inside that range",
               "_torch_polar is translated on top of an abstract svd; torch_polar_is_polar proves it equals the closed form polar2 (run by the driver) for any svd meeting its specification; correctness of torch.linalg.svd is measured",
               "torch.linalg.lstsq is modelled by the normal equations (lstsq_exact: exact for a full-column-rank basis); agreement is measured",
               "ProbeBase.probe_params setter and DirectPtychography._return_lateral_shifts are called on attribute stubs (the real function objects, no dataset needed)",
               "a value is None | a number (read by float()) | a value float() rejects with a probed exception class; the exception class is what is compared, never the message",
               "a rejected probe_params assignment must leave _probe_params as it was (the property's alias clause after a REJECTED call followed by valid reads); the caller's dict (which the setter mutates on success) is not compared",
               "alias form vs canonical form of one coefficient set must give the same results in every DirectPtychography entry point (reads of .aberration_coefs exactly; tensors to 1e-5 relative)",
               "fit identifiable domain used by the generator: |θ| ≤ 0.47π, |C10| ≥ 1.5·C12 > 0, φ12 ∈ (−π/2, π/2], ≥ 6 bright-field pixels spanning rank 2, only C10/C12/phi12 non-zero",
               "round 6: a label / symbol ABSENT from a conversion result reads 0 (as every consumer of these dicts reads it) — a dropped key is a failed round trip with the coefficient dict as failing input; `max_order` is modelled for every natural number, compared for 0..5 (f-string names of two-digit orders are in the model but not driven)",
               "round 6: two objects built from the same / an equal coefficient dict are independent (HyperparameterState, its copy(), ProbePixelated, DirectPtychography), the dict returned by current_aberrations() belongs to the caller, and the caller's input dict is not modified by the validators"]
EXPLANATION = ("Theorems in Props/C12.lean are about Generated/Aberration.lean, which pregenerate() rebuilds from the "
               "function bodies in the repo under test on every run; every generated definition, the alias models and "
               "the fit model are executed at Float by the Lean driver and compared with the real torch functions.")

TABLE = [(1, 0), (1, 2), (2, 1), (2, 3), (3, 0), (3, 2), (3, 4), (4, 1), (4, 3), (4, 5), (5, 0), (5, 2), (5, 4), (5, 6)]
SYMS = [s for n, m in TABLE for s in ([f"C{n}{m}"] if m == 0 else [f"C{n}{m}", f"phi{n}{m}"])]
LABELS = [s for n, m in TABLE for s in ([f"C{n}{m}"] if m == 0 else [f"C{n}{m}_a", f"C{n}{m}_b"])]
ALIASES = {"defocus": "C10", "astigmatism": "C12", "astigmatism_angle": "phi12", "coma": "C21", "coma_angle": "phi21",
           "Cs": "C30", "C5": "C50"}
TOL64, TOL32 = 1e-9, 5e-4


def pregenerate():
    """regenerate Generated/Aberration.lean from the tree under test.  The two guarded series (aberration_surface and its
    polar gradients) are TRACED (the real functions executed on symbols); everything else goes through the syntactic
    translator.  A unit whose source left the grammar keeps the text of the reference tree — that text is still run by the
    driver against the real code in the correspondence streams — and is listed in the evidence (`translator_notes`);
    only a unit without any reference text breaks the tie."""
    from translator import aberr2lean
    aberr2lean.regenerate()
    return None


# ----------------------------------------------------------------------------------------
def _mods():
    import torch
    from quantem.diffractive_imaging import complex_probe as cp
    return torch, cp


def f2b(x):
    from qv.driver import f2b as g
    return g(x)


def b2f(n):
    from qv.driver import b2f as g
    return g(n)


def enc_dict(d):
    return [[k, f2b(v)] for k, v in d.items()]


def dec_dict(j):
    return [[k, b2f(v)] for k, v in j]


def maxdiff(impl, model):
    """(max |impl-model|, scale) with the DESIGN §3 scale = max(1, max|model|); NaN/inf → inf"""
    d, s = 0.0, 1.0
    for a, b in zip(impl, model):
        if not (math.isfinite(a) and math.isfinite(b)):
            if a != b and not (a != a and b != b):
                return float("inf"), 1.0
            continue
        d = max(d, abs(a - b))
        s = max(s, abs(b))
    return d, s


def check_vec(ctx, stream, name, case, impl, model, tol, note=""):
    if len(impl) != len(model):
        ctx.disagree(stream, case, {name: model}, {name: impl}, note=f"{name}: length")
        return
    d, s = maxdiff(impl, model)
    ctx.stat_max(f"{stream}.{name}.rel_dist_{'f64' if tol == TOL64 else 'f32'}", d / s)
    if d > tol * s:
        ctx.disagree(stream, case, {name: model}, {name: impl}, note=f"{name} {note} |impl-model|={d:.3g} > {tol}*{s:.3g}")


def check_polar(ctx, stream, name, case, impl, model, tol):
    """polar coefficient dicts: amplitudes by the tolerance rule; an angle φ_nm is compared modulo 2π/m (it is only
    defined modulo that) and not at all when its amplitude is 0 (atan2 of signed zeros; the term vanishes)."""
    amps = [k for k in model if k.startswith("C")]
    check_vec(ctx, stream, name + ".C", case, [impl[k] for k in amps], [model[k] for k in amps], tol)
    scale = max([1.0] + [abs(model[k]) for k in amps])
    for k in model:
        if not k.startswith("phi"):
            continue
        m = int(k[-1])
        c = abs(model["C" + k[3:]])
        if c <= 1e-6 * scale:
            ctx.dist["formula:angle_of_zero_amplitude_not_compared"] += 1
            continue
        d = abs(math.remainder(m * (impl[k] - model[k]), 2 * math.pi)) / m
        ctx.stat_max(f"{stream}.{name}.phi.dist_{'f64' if tol == TOL64 else 'f32'}", d * min(1.0, c / scale))
        if not d * min(1.0, c / scale) <= tol * 10:
            ctx.disagree(stream, case, {k: model[k]}, {k: impl[k]}, note=f"{name} {k}: angular distance {d:.3g} (amplitude {c:.3g})")
            return


# ----------------------------------------------------------------------------------------
# stream 1: formula code

def gen_formula_case(rng):
    regime = rng.weighted([("unit", 5), ("physical", 3)])
    dtype = rng.weighted([("float64", 6), ("float32", 4)])
    mode = rng.weighted([("random", 5), ("all", 2), ("one_order", 2), ("single", 1), ("alias", 2)])
    if mode == "all":
        keys = list(SYMS)
    elif mode == "one_order":
        n = rng.randint(1, 5)
        keys = [s for s in SYMS if s[-2] == str(n)]
    elif mode == "single":
        n, m = rng.choice(TABLE)
        keys = [f"C{n}{m}"] + ([f"phi{n}{m}"] if m else [])
    else:
        p = rng.choice([0.2, 0.5, 0.8])
        keys = [s for s in SYMS if rng.chance(p)] or ["C10"]
    keys = rng.shuffle(keys)
    lam = rng.uniform(0.5, 3.0) if regime == "unit" else rng.choice([0.0197, 0.0251, 0.0370, 0.0487])
    amax = 1.5 if regime == "unit" else 0.03
    coefs = {}
    for k in keys:
        if k.startswith("phi"):
            coefs[k] = rng.uniform(-3.5, 3.5)
        else:
            n = int(k[1])
            mag = 3.0 if regime == "unit" else 40.0 * lam / (amax ** (n + 1))   # each term up to ~40 rad of phase
            coefs[k] = rng.uniform(-mag, mag) if rng.chance(0.8) else rng.uniform(0, mag)
    alias_items = None
    if mode == "alias":
        inv = {v: k for k, v in ALIASES.items()}
        alias_items = []
        for k, v in coefs.items():
            if k in inv and rng.chance(0.7):
                a = inv[k]
                alias_items.append([a, -v if a == "defocus" else v])
            else:
                alias_items.append([k, v])
    pts = [[rng.uniform(0.05 * amax, amax), rng.uniform(-3.1, 3.1)] for _ in range(6)]
    if rng.chance(0.3):
        pts[0][0] = 0.0 if rng.chance(0.5) else pts[0][0]
        pts[1][1] = 0.0
    lab_mode = rng.weighted([("all", 3), ("preset", 2), ("subset", 3)])
    if lab_mode == "all":
        labels = list(LABELS)
    elif lab_mode == "preset":
        labels = {"defocus": ["C10"], "quadratic": LABELS[:3], "low_order": LABELS[:5] + ["C30"]}[rng.choice(["defocus", "quadratic", "low_order"])]
    else:
        labels = rng.shuffle([l for l in LABELS if rng.chance(0.4)] or ["C12_b"])
    dkeys = [l for l in LABELS if rng.chance(0.3)]
    delta = {l: rng.uniform(-1, 1) * (3.0 if regime == "unit" else 40.0 * lam / (amax ** (int(l[1]) + 1))) for l in rng.shuffle(dkeys)}
    if rng.chance(0.15):
        delta = {}
    cart = {l: rng.uniform(-2, 2) for l in LABELS if rng.chance(0.6)}
    return {"stream": "formula", "regime": regime, "dtype": dtype, "lam": lam, "coefs": coefs, "alias_items": alias_items,
            "pts": pts, "labels": labels, "delta": delta, "cart": cart, "tensor_coefs": rng.chance(0.5)}


def eval_formula_case(ctx, drv, case):
    torch, cp = _mods()
    dt = torch.float64 if case["dtype"] == "float64" else torch.float32
    tol = TOL64 if dt == torch.float64 else TOL32
    lam = case["lam"]
    coefs = dict(case["coefs"])
    stream = "formula"
    # --- alias keys go through the real standardize_aberration_coefs (float32 tensors) and the model's
    if case.get("alias_items"):
        items = case["alias_items"]
        try:
            std = cp.standardize_aberration_coefs(dict((k, v) for k, v in items))
            coefs = {k: float(v) for k, v in std.items()}
        except Exception as e:  # noqa
            ctx.disagree(stream, case, "ok", f"{type(e).__name__}: {e}", note="standardize_aberration_coefs raised on valid aliases")
            return
        m = drv.ask({"op": "standardize", "items": [[k, f2b(v)] for k, v in items]})
        if "ok" not in m:
            ctx.disagree(stream, case, m, coefs, note="model rejects alias dict")
            return
        import struct
        mcoefs = {k: struct.unpack("<f", struct.pack("<f", b2f(v)))[0] for k, v in m["ok"]}   # torch.tensor(v, float32)
        if list(mcoefs.items()) != list(coefs.items()):
            ctx.disagree(stream, case, list(mcoefs.items()), list(coefs.items()), note="standardize result")
            return
        tcoefs = std if case["tensor_coefs"] else coefs
        if case["tensor_coefs"]:
            tol = TOL32     # 0-dim float32 coefficient tensors: `3.0 * get("C23")` is rounded to float32 inside the source
        ctx.dist["formula:alias_keys"] += 1
    else:
        tcoefs = {k: torch.tensor(v, dtype=dt) for k, v in coefs.items()} if case["tensor_coefs"] else coefs
        if case["tensor_coefs"]:
            coefs = {k: float(v) for k, v in tcoefs.items()}
    alpha = torch.tensor([p[0] for p in case["pts"]], dtype=dt)
    phi = torch.tensor([p[1] for p in case["pts"]], dtype=dt)
    pts = [[f2b(float(a)), f2b(float(p))] for a, p in zip(alpha, phi)]
    flam = f2b(lam)
    ec = enc_dict(coefs)
    # --- real code
    chi = cp.aberration_surface(alpha, phi, lam, tcoefs)
    dk, dphi = cp.aberration_surface_polar_gradients(alpha, phi, tcoefs)
    dx, dy = cp.aberration_surface_cartesian_gradients(alpha, phi, tcoefs)
    basis = cp.aberration_surface_cartesian_basis(alpha, phi, lam, case["labels"])
    pol_t = {k: torch.tensor(v, dtype=dt) for k, v in coefs.items()}
    cart = cp.polar_to_cartesian_aberrations(pol_t, dtype=dt)
    cart_in = {k: torch.tensor(v, dtype=dt) for k, v in case["cart"].items()}
    cart_in_f = {k: float(v) for k, v in cart_in.items()}
    pol_back = cp.cartesian_to_polar_aberrations(cart_in)
    delta_t = {k: torch.tensor(v, dtype=dt) for k, v in case["delta"].items()}
    delta_f = {k: float(v) for k, v in delta_t.items()}
    merged = cp.merge_aberration_coefficients(pol_t, delta_t)
    tl = lambda t: [float(x) for x in t.reshape(-1)]  # noqa
    # --- model
    reqs = [{"op": "surface", "coefs": ec, "lam": flam, "pts": pts},
            {"op": "grads", "coefs": ec, "pts": pts},
            {"op": "basis", "lam": flam, "pts": pts, "labels": case["labels"]},
            {"op": "p2c", "coefs": ec},
            {"op": "c2p", "coefs": enc_dict(cart_in_f)},
            {"op": "merge", "init": ec, "delta": enc_dict(delta_f)}]
    ms = drv.ask_many(reqs)
    for r in ms:
        if "ok" not in r:
            raise RuntimeError(f"driver error {r}")
    bl = lambda xs: [b2f(x) for x in xs]  # noqa
    check_vec(ctx, stream, "aberration_surface", case, tl(chi), bl(ms[0]["ok"]["code"]), tol)
    check_vec(ctx, stream, "spec_chi", case, tl(chi), bl(ms[0]["ok"]["spec"]), tol, note="(hand spec at Float)")
    check_vec(ctx, stream, "dchi_dk", case, tl(dk), bl(ms[1]["ok"]["dk"]), tol)
    check_vec(ctx, stream, "dchi_dphi", case, tl(dphi), bl(ms[1]["ok"]["dphi"]), tol)
    check_vec(ctx, stream, "dchi_dx", case, tl(dx), bl(ms[1]["ok"]["dx"]), tol)
    check_vec(ctx, stream, "dchi_dy", case, tl(dy), bl(ms[1]["ok"]["dy"]), tol)
    check_vec(ctx, stream, "cartesian_basis", case, tl(basis), [b2f(x) for row in ms[2]["ok"] for x in row], tol)
    for name, impl, mod in (("polar_to_cartesian", cart, ms[3]["ok"]), ("cartesian_to_polar", pol_back, ms[4]["ok"]),
                            ("merge", merged, ms[5]["ok"])):
        if list(impl.keys()) != [k for k, _ in mod]:
            ctx.disagree(stream, case, [k for k, _ in mod], list(impl.keys()), note=f"{name}: keys/order")
        elif name == "polar_to_cartesian":
            check_vec(ctx, stream, name, case, [float(v) for v in impl.values()], [b2f(v) for _, v in mod], tol)
        else:
            check_polar(ctx, stream, name, case, {k: float(v) for k, v in impl.items()}, {k: b2f(v) for k, v in mod}, tol)
    # --- property predicates on the real code (float64 only: sharp) ------------------------
    orders = tuple(sorted({int(k[-2]) for k, v in coefs.items() if v != 0.0}))
    ctx.count()
    ctx.dist[f"formula:{case['dtype']}:{case['regime']}"] += 1
    ctx.dist[f"formula:nkeys={min(len(coefs) // 5 * 5, 25)}+"] += 1
    if any(v != 0.0 for v in coefs.values()):
        ctx.mark(("formula", case["dtype"], case["regime"], orders, min(len(coefs) // 5, 5), bool(case.get("alias_items")),
                  len(case["labels"]) == 25, bool(case["delta"])))
    ctx.sample({"stream": "formula", "dtype": case["dtype"], "lam": lam, "coefs": coefs, "pts": case["pts"][:2]}, limit=2)
    predicates_formula(ctx, case, coefs, lam)


def predicates_formula(ctx, case, coefs, lam):
    """mutual consistency of the REAL functions in float64 + autograd gradients"""
    torch, cp = _mods()
    dt = torch.float64
    T = lambda v: torch.tensor(v, dtype=dt)  # noqa
    alpha = T([p[0] for p in case["pts"]])
    phi = T([p[1] for p in case["pts"]])
    pol = {k: T(v) for k, v in coefs.items()}
    chi = cp.aberration_surface(alpha, phi, lam, pol)
    ptol = 2e-9

    def bad(a, b, extra=1.0):
        s = max(1.0, float(b.abs().max()), float(a.abs().max())) * extra
        d = float((a - b).abs().max())
        return (d > ptol * s or d != d), d, s

    small = {"coefs": coefs, "lam": lam, "pts": case["pts"], "stream": "formula", "dtype": "float64", "regime": case["regime"],
             "labels": LABELS, "delta": case["delta"], "cart": case["cart"], "tensor_coefs": False, "alias_items": None}
    # (1) Cartesian-basis expansion of polar_to_cartesian(polar) is the same function as the polar form
    cart = cp.polar_to_cartesian_aberrations(pol, dtype=dt)
    B = cp.aberration_surface_cartesian_basis(alpha, phi, lam, list(cart.keys()))
    expn = (B * torch.stack([cart[k] for k in cart])).sum(-1)
    termscale = float((B * torch.stack([cart[k] for k in cart])).abs().sum(-1).max()) if len(cart) else 1.0
    f, d, s = bad(expn, chi, max(1.0, termscale) / max(1.0, float(chi.abs().max())))
    if f:
        ctx.pred_fail("basis-expansion", "Σ cart_l·basis_l differs from the polar surface", small,
                      observed={"expansion": expn.tolist(), "max_diff": d}, required={"surface": chi.tolist()})
    # (2) conversions describe the identical function; Cartesian round trip is the identity
    back = cp.cartesian_to_polar_aberrations(cart)
    chi2 = cp.aberration_surface(alpha, phi, lam, back)
    f, d, s = bad(chi2, chi, max(1.0, termscale) / max(1.0, float(chi.abs().max())))
    if f:
        ctx.pred_fail("conv-roundtrip-surface", "surface of cartesian_to_polar(polar_to_cartesian(p)) differs from surface of p", small,
                      observed={"roundtrip": chi2.tolist(), "max_diff": d}, required={"surface": chi.tolist()})
    cart_in = {k: T(v) for k, v in case["cart"].items()}
    if cart_in:
        c2 = cp.polar_to_cartesian_aberrations(cp.cartesian_to_polar_aberrations(cart_in), dtype=dt)
        # a label the real result does not carry reads 0 (what every consumer of these dicts does): a dropped label is
        # a failed round trip with this coefficient dict as the failing input, never an indexing error of the harness
        a = torch.stack([torch.as_tensor(c2.get(k, 0.0), dtype=dt).reshape(()) for k in LABELS])
        b = torch.stack([cart_in.get(k, T(0.0)) for k in LABELS])
        f, d, s = bad(a, b)
        if f:
            missing = [k for k in LABELS if k not in c2]
            ctx.pred_fail("conv-cart-roundtrip", "polar_to_cartesian(cartesian_to_polar(c)) differs from c"
                          + (f" (labels absent from the result: {missing})" if missing else ""), small,
                          observed=dict(zip(LABELS, a.tolist())), required=dict(zip(LABELS, b.tolist())))
    # (3) merge: surface(merge(init, δ)) = surface(init) + Σ δ_l basis_l
    delta = {k: T(v) for k, v in case["delta"].items()}
    merged = cp.merge_aberration_coefficients(pol, delta)
    chi_m = cp.aberration_surface(alpha, phi, lam, merged)
    want = chi.clone()
    if delta:
        Bd = cp.aberration_surface_cartesian_basis(alpha, phi, lam, list(delta.keys()))
        want = want + (Bd * torch.stack([delta[k] for k in delta])).sum(-1)
        termscale = max(termscale, float((Bd * torch.stack([delta[k] for k in delta])).abs().sum(-1).max()))
    f, d, s = bad(chi_m, want, max(1.0, termscale) / max(1.0, float(want.abs().max())))
    if f:
        ctx.pred_fail("merge-surface", "surface of merged coefficients differs from surface(init) + Σ δ_l·basis_l", small,
                      observed={"merged": chi_m.tolist(), "max_diff": d}, required={"expected": want.tolist()})
    # (4) analytic gradients = wavelength × true gradient (autograd of the real surface)
    a = alpha.clone().requires_grad_(True)
    p = phi.clone().requires_grad_(True)
    c = cp.aberration_surface(a, p, lam, pol)
    if c.requires_grad:
        ga, gp = torch.autograd.grad(c.sum(), (a, p), allow_unused=True)
        ga = torch.zeros_like(alpha) if ga is None else ga
        gp = torch.zeros_like(alpha) if gp is None else gp
        dk, dphi = cp.aberration_surface_polar_gradients(alpha, phi, pol)
        f, d, s = bad(dk, lam * ga)
        if f:
            ctx.pred_fail("gradient-alpha", "dchi_dk differs from wavelength·∂χ/∂α (autograd of aberration_surface)", small,
                          observed={"dchi_dk": dk.tolist(), "max_diff": d}, required={"lam*dchi/dalpha": (lam * ga).tolist()})
        f, d, s = bad(alpha * dphi, lam * gp)
        if f:
            ctx.pred_fail("gradient-phi", "α·dchi_dphi differs from wavelength·∂χ/∂φ (autograd of aberration_surface)", small,
                          observed={"alpha*dchi_dphi": (alpha * dphi).tolist(), "max_diff": d}, required={"lam*dchi/dphi": (lam * gp).tolist()})
        nz = alpha > 0
        if bool(nz.any()):
            x = (alpha * torch.cos(phi))[nz].clone().requires_grad_(True)
            y = (alpha * torch.sin(phi))[nz].clone().requires_grad_(True)
            ar = torch.sqrt(x * x + y * y)
            pr = torch.atan2(y, x)
            cxy = cp.aberration_surface(ar, pr, lam, pol)
            gx, gy = torch.autograd.grad(cxy.sum(), (x, y), allow_unused=True)
            gx = torch.zeros_like(x) if gx is None else gx
            gy = torch.zeros_like(x) if gy is None else gy
            dx, dy = cp.aberration_surface_cartesian_gradients(ar.detach(), pr.detach(), pol)
            f1, d1, _ = bad(dx, lam * gx)
            f2, d2, _ = bad(dy, lam * gy)
            if f1 or f2:
                ctx.pred_fail("gradient-cartesian", "(dchi_dx, dchi_dy) differs from wavelength·∇_{x,y}χ (autograd)", small,
                              observed={"dx": dx.tolist(), "dy": dy.tolist(), "max_diff": max(d1, d2)},
                              required={"lam*gx": (lam * gx).tolist(), "lam*gy": (lam * gy).tolist()})


# ----------------------------------------------------------------------------------------
# stream 2: alias handling

def dy(rng, lo=-64, hi=64):
    """a dyadic value exactly representable in float32"""
    return rng.randint(lo * 8, hi * 8) / 8.0


# numeric forms of a coefficient value (everything the three alias routes accept on the clean tree):
# name -> (family, lo, hi); a typed value is stored in the case as [form, number]
FORMS = {
    "int": ("exact", -512, 512), "float": ("exact", None, None), "bool": ("bool", 0, 1),
    "np.bool_": ("bool", 0, 1), "np.float32": ("float", None, None), "np.float64": ("float", None, None),
    "np.int8": ("signed", -128, 127), "np.int16": ("signed", -512, 512), "np.int32": ("signed", -512, 512),
    "np.int64": ("signed", -512, 512),
    "np.uint8": ("unsigned", 0, 255), "np.uint16": ("unsigned", 0, 1023), "np.uint32": ("unsigned", 0, 1023),
    "np.uint64": ("unsigned", 0, 1023),
    "arr.float32": ("float", None, None), "arr.float64": ("float", None, None), "arr.int8": ("signed", -128, 127),
    "arr.int32": ("signed", -512, 512), "arr.uint8": ("unsigned", 0, 255), "arr.uint16": ("unsigned", 0, 1023),
    "arr.uint64": ("unsigned", 0, 1023), "arr.bool": ("bool", 0, 1),
    "t.float32": ("float", None, None), "t.float64": ("float", None, None), "t.int8": ("signed", -128, 127),
    "t.int16": ("signed", -512, 512), "t.int32": ("signed", -512, 512), "t.int64": ("signed", -512, 512),
    "t.uint8": ("unsigned", 0, 255), "t.bool": ("bool", 0, 1),
}


def gen_typed(rng):
    form = rng.choice(sorted(FORMS))
    fam, lo, hi = FORMS[form]
    if lo is None:
        x = dy(rng)
    elif rng.chance(0.15):
        x = rng.choice([lo, hi, 0])           # edges: the minimal signed value, the largest unsigned, zero
    else:
        x = rng.randint(lo, hi)
    return [form, x]


def is_typed(v):
    return isinstance(v, list) and len(v) == 2 and isinstance(v[0], str) and v[0] in FORMS


def rv(v):
    """the value as a real number (what `defocus = d` means)"""
    if v is None:
        return None
    return float(v[1]) if is_typed(v) else float(v)


def obj(v):
    """the Python object of that numeric form"""
    if not is_typed(v):
        return v
    import numpy as np
    import torch
    form, x = v
    if form == "int":
        return int(x)
    if form == "float":
        return float(x)
    if form == "bool":
        return bool(x)
    lib, ty = form.split(".")
    if lib == "np":
        return np.bool_(bool(x)) if ty == "bool_" else getattr(np, ty)(x)
    if lib == "arr":
        return np.array(bool(x) if ty == "bool" else x, dtype=getattr(np, "bool_" if ty == "bool" else ty))
    return torch.tensor(bool(x) if ty == "bool" else x, dtype=getattr(torch, ty))


def gen_alias_case(rng):
    impl = rng.choice(["standardize", "validate", "probe_params"])
    pool = SYMS + list(ALIASES)
    n = rng.weighted([(1, 2), (2, 3), (3, 3), (5, 2), (9, 1)])
    keys = rng.sample(pool, n)
    if rng.chance(0.55) and "defocus" not in keys:
        keys[rng.below(len(keys))] = "defocus"
    keys = rng.shuffle(list(dict.fromkeys(keys)))
    items = []
    for k in keys:
        v = dy(rng)
        if rng.chance(0.1):
            v = None
        elif rng.chance(0.65) or (k == "defocus" and rng.chance(0.6)):
            v = gen_typed(rng)          # a number in one of the numeric forms the routes accept
        elif rng.chance(0.2):
            v = int(v)
        items.append([k, v])
    bad_key = None
    if rng.chance(0.12):
        bad_key = rng.choice(["C11", "c10", "Defocus", "phi10", "C12_a", "foo", ""])
        items.insert(rng.randint(0, len(items)), [bad_key, dy(rng)])
    case = {"stream": "alias", "impl": impl, "items": items}
    if impl == "probe_params":
        top, nested = [], []
        for k, v in items:
            (nested if rng.chance(0.45) else top).append([k, v])
        extra = [["energy", 300e3], ["semiangle_cutoff", 20.0], ["soft_edges", True]]
        top = top + [e for e in extra if rng.chance(0.5)]
        if "defocus" not in [k for k, _ in top] and rng.chance(0.2):
            top.append(["defocus", None])
        top = rng.shuffle(top)
        if nested or rng.chance(0.3):
            top.insert(rng.randint(0, len(top)), ["aberration_coefs", {"__dict__": nested}])
        case["items"] = top
        case["max_order"] = rng.choice([None, None, 1, 2, 3, 5, 0])
    return case


def err_name(e):
    return type(e).__name__ if type(e).__name__ in ("KeyError", "ValueError", "TypeError") else "Other:" + type(e).__name__


def eval_alias_case(ctx, drv, case):
    torch, cp = _mods()
    impl = case["impl"]
    items = case["items"]
    flat = []      # (key, value) in processing order, for the predicate

    def enc_opt(v):
        return None if v is None else f2b(rv(v))
    import warnings
    warnings.simplefilter("ignore")
    try:
        if impl == "standardize":
            out = cp.standardize_aberration_coefs({k: obj(v) for k, v in items})
            res = {"ok": [[k, float(v)] for k, v in out.items()]}
            flat = [(k, v) for k, v in items]
            req = {"op": "standardize", "items": [[k, enc_opt(v)] for k, v in items]}
        elif impl == "validate":
            from quantem.core.utils.validators import validate_aberration_coefficients
            out = validate_aberration_coefficients({k: obj(v) for k, v in items})
            res = {"ok": [[k, float(v)] for k, v in out.items()]}
            flat = [(k, v) for k, v in items]
            req = {"op": "validate", "items": [[k, enc_opt(v)] for k, v in items]}
        else:
            from quantem.diffractive_imaging.probe_models import ProbeBase
            params = {}
            enc = []
            for k, v in items:
                if isinstance(v, dict):
                    sub = v["__dict__"]
                    params[k] = {a: obj(b) for a, b in sub}
                    enc.append([k, {"d": [[a, enc_opt(b)] for a, b in sub]}])
                    flat += [(a, b) for a, b in sub]
                elif isinstance(v, bool):
                    params[k] = v
                    enc.append([k, {"o": 1}])
                elif v is None:
                    params[k] = None
                    enc.append([k, None])
                else:
                    params[k] = obj(v)
                    enc.append([k, {"n": f2b(rv(v))}])
                    flat.append((k, v))
            stub = types.SimpleNamespace(DEFAULT_PROBE_PARAMS=dict(ProbeBase.DEFAULT_PROBE_PARAMS),
                                         _probe_params=dict(ProbeBase.DEFAULT_PROBE_PARAMS),
                                         _max_aberrations_order=case.get("max_order"))
            req = {"op": "probe_params", "items": enc}
            if case.get("max_order") is not None:
                req["max_order"] = case["max_order"]
            ProbeBase.probe_params.fset(stub, params)
            out = stub._probe_params["aberration_coefs"]
            res = {"ok": [[k, float(v)] for k, v in out.items()]}
    except Exception as e:  # noqa
        res = {"err": err_name(e)}
        if impl != "probe_params":
            req = {"op": impl, "items": [[k, enc_opt(v)] for k, v in items]}
    m = drv.ask(req)
    if "err" in m and str(m["err"]).startswith("driver"):
        raise RuntimeError(f"driver error {m}")
    mv = {"ok": dec_dict(m["ok"])} if "ok" in m else {"err": m["err"]}
    ctx.count()
    ctx.dist[f"alias:{impl}:{res.get('err', 'ok')}"] += 1
    if mv != res:
        ctx.disagree("alias", case, mv, res, note=impl)
    has_none = any(v is None for _, v in flat)
    fams = tuple(sorted({FORMS[v[0]][0] + ":" + v[0].split(".")[0] for _, v in flat if is_typed(v)}))
    for _, v in flat:
        if is_typed(v):
            ctx.dist[f"alias:form:{v[0]}"] += 1
    dform = next((v[0] for k, v in flat if k == "defocus" and is_typed(v)), None)
    ctx.mark(("alias", impl, res.get("err", "ok"), min(len(flat), 6), "defocus" in [k for k, _ in flat], has_none,
              case.get("max_order"), any(isinstance(v, dict) for _, v in items), fams[:2], dform))
    ctx.sample({"stream": "alias", "impl": impl, "items": items, "result": res}, limit=4)
    # --- predicate: 'defocus' always means C10 = -defocus; other aliases keep the value ------------
    if "ok" in res:
        got = dict((k, v) for k, v in res["ok"])
        keys = [k for k, v in flat if v is not None]
        vals = {k: rv(v) for k, v in flat if v is not None}
        if "defocus" in vals and "C10" not in vals:
            if got.get("C10") != -vals["defocus"]:
                ctx.pred_fail(f"defocus-alias-{impl}", f"{impl}: 'defocus' did not become C10 = -defocus", case,
                              observed={"C10": got.get("C10")}, required={"C10": -vals["defocus"]})
        for a, t in ALIASES.items():
            if a != "defocus" and a in vals and t not in vals:
                if got.get(t) != vals[a]:
                    ctx.pred_fail(f"alias-{a}-{impl}", f"{impl}: alias '{a}' did not become {t} with the same value", case,
                                  observed={t: got.get(t)}, required={t: vals[a]})
        for k in keys:
            if k in SYMS and k not in ALIASES.values():
                if got.get(k) != vals[k]:
                    ctx.pred_fail(f"symbol-{impl}", f"{impl}: canonical symbol {k} not stored unchanged", case,
                                  observed={k: got.get(k)}, required={k: vals[k]})


# ----------------------------------------------------------------------------------------
# stream 3: lateral shifts and the polar-decomposition fit

def gen_fit_case(rng):
    gpts = [rng.randint(8, 22), rng.randint(8, 22)]
    if rng.chance(0.3):
        gpts[1] = gpts[0]
    sampling = [rng.uniform(0.2, 0.6), rng.uniform(0.2, 0.6)]
    if rng.chance(0.4):
        sampling[1] = sampling[0]
    lam = rng.choice([0.0197, 0.0251, 0.0370])
    kmax = min(0.5 / sampling[0], 0.5 / sampling[1])
    semi = rng.uniform(0.35, 0.9) * kmax * lam
    theta = None if rng.chance(0.15) else rng.uniform(-0.47, 0.47) * math.pi
    c10 = rng.uniform(200.0, 3000.0) * (1 if rng.chance(0.5) else -1)
    c12 = abs(c10) * rng.uniform(0.03, 0.66)
    phi12 = rng.uniform(-0.499, 0.5) * math.pi
    return {"stream": "fit", "gpts": gpts, "sampling": sampling, "lam": lam, "semiangle": semi, "theta": theta,
            "C10": c10, "C12": c12, "phi12": phi12, "offcenter": rng.chance(0.3)}


def eval_fit_case(ctx, drv, case):
    torch, cp = _mods()
    from quantem.diffractive_imaging.direct_ptychography import DirectPtychography
    from quantem.diffractive_imaging.direct_ptycho_utils import fit_aberrations_from_shifts
    gpts, sampling, lam = tuple(case["gpts"]), tuple(case["sampling"]), case["lam"]
    kx, ky = cp.spatial_frequencies(gpts, sampling)
    k = torch.sqrt(kx ** 2 + ky ** 2)
    mask = (k * lam <= case["semiangle"])
    if case.get("offcenter"):
        mask = mask & ~((kx > 0) & (ky > 0) & (k * lam > 0.6 * case["semiangle"]))
    npx = int(mask.sum())
    if npx < 6 or len(set(kx[mask].tolist())) < 3 or len(set(ky[mask].tolist())) < 3:
        ctx.dist["fit:rejected_mask_not_rank2"] += 1   # outside the identifiable domain (basis must span both directions)
        return
    coefs = {"C10": case["C10"], "C12": case["C12"], "phi12": case["phi12"]}
    stub = types.SimpleNamespace(gpts=gpts, sampling=sampling, wavelength=lam, device="cpu")
    theta = case["theta"]
    shifts = DirectPtychography._return_lateral_shifts(stub, theta, coefs, mask)       # real, float32
    pts = [[f2b(float(a)), f2b(float(b))] for a, b in zip(kx[mask], ky[mask])]
    req = {"op": "shifts", "coefs": enc_dict(coefs), "lam": f2b(lam), "pts": pts, "theta": None if theta is None else f2b(theta)}
    m = drv.ask(req)
    if "ok" not in m:
        raise RuntimeError(f"driver error {m}")
    mshift = [b2f(x) for row in m["ok"] for x in row]
    check_vec(ctx, "shifts", "lateral_shifts", case, [float(x) for x in shifts.reshape(-1)], mshift, TOL32)
    fit = fit_aberrations_from_shifts(shifts, mask, lam, gpts, sampling)              # real
    kvec = torch.dstack((kx[mask], ky[mask])).view((-1, 2))
    basis = kvec * lam
    mf = drv.ask({"op": "fit", "basis": [[f2b(float(a)), f2b(float(b))] for a, b in basis],
                  "shifts": [[f2b(float(a)), f2b(float(b))] for a, b in shifts]})
    if "ok" not in mf:
        raise RuntimeError(f"driver error {mf}")
    mfit = [b2f(x) for x in mf["ok"]["fit"]]
    ifit = [fit["C10"], fit["C12"], fit["phi12"], fit["rotation_angle"]]
    names = ["C10", "C12", "phi12", "rotation_angle"]
    ctx.count()
    for nme, a, b in zip(names, ifit, mfit):
        if nme == "phi12":      # defined modulo π
            dd = abs((a - b + math.pi / 2) % math.pi - math.pi / 2)
        else:
            dd = abs(a - b)
        sc = max(1.0, abs(b))
        ctx.stat_max(f"fit.{nme}.rel_dist_f32", dd / sc)
        if not dd <= TOL32 * sc:
            ctx.disagree("fit", case, dict(zip(names, mfit)), dict(zip(names, ifit)), note=f"{nme}: |impl-model|={dd:.3g}")
            break
    ctx.dist[f"fit:theta={'None' if theta is None else ('neg' if theta < 0 else 'pos')}:C10{'>0' if case['C10'] > 0 else '<0'}"] += 1
    ctx.dist[f"fit:npix={min(npx // 20 * 20, 100)}+"] += 1
    ctx.mark(("fit", "None" if theta is None else round(theta / math.pi * 4), case["C10"] > 0, round(case["C12"] / abs(case["C10"]) * 4),
              round(case["phi12"] / math.pi * 4), gpts[0] == gpts[1], bool(case.get("offcenter"))))
    ctx.sample({"stream": "fit", "case": case, "fit": fit}, limit=1)
    # --- predicate: the fit returns the values that generated the shifts -----------------------------
    th = 0.0 if theta is None else theta
    rt = 2e-3
    errs = {"C10": abs(fit["C10"] - case["C10"]) / abs(case["C10"]),
            "C12": abs(fit["C12"] - case["C12"]) / abs(case["C10"]),
            "phi12": abs((fit["phi12"] - case["phi12"] + math.pi / 2) % math.pi - math.pi / 2) * min(1.0, case["C12"] / abs(case["C10"]) * 10),
            "rotation_angle": abs(fit["rotation_angle"] - th)}
    for nme, e in errs.items():
        ctx.stat_max(f"fit.roundtrip_err.{nme}", e)
    worst = max(errs, key=lambda n: errs[n] if errs[n] == errs[n] else float("inf"))
    if not all(e <= rt for e in errs.values()):
        ctx.pred_fail(f"fit-roundtrip-{worst}", "fit_aberrations_from_shifts(_return_lateral_shifts(θ, C10, C12, φ12)) does not return the generating values",
                      case, observed=fit, required={"C10": case["C10"], "C12": case["C12"], "phi12 (mod π)": case["phi12"], "rotation_angle": th})


# ----------------------------------------------------------------------------------------
def check_tables(ctx, drv):
    torch, cp = _mods()
    from quantem.diffractive_imaging import direct_ptycho_utils as dpu
    from quantem.diffractive_imaging.probe_models import ProbeBase
    m = drv.ask({"op": "tables"})["ok"]
    impl = {"POLAR_SYMBOLS": list(cp.POLAR_SYMBOLS), "POLAR_ALIASES": [[k, v] for k, v in cp.POLAR_ALIASES.items()],
            "ABERRATION_PRESETS": [[k, list(v)] for k, v in dpu.ABERRATION_PRESETS.items()],
            "DEFAULT_PROBE_PARAM_KEYS": list(ProbeBase.DEFAULT_PROBE_PARAMS.keys())}
    model = {k: m[k] for k in impl}
    ctx.count()
    if model != impl:
        ctx.disagree("tables", {"stream": "tables"}, model, impl, note="literal tables read by the translator vs runtime objects")
    # the property speaks of 25 polar symbols / 25 Cartesian labels, orders 1..5
    if sorted(cp.POLAR_SYMBOLS) != sorted(SYMS) or sorted(dpu.ABERRATION_PRESETS.get("all", [])) != sorted(LABELS):
        ctx.pred_fail("symbol-tables", "POLAR_SYMBOLS / ABERRATION_PRESETS['all'] are not the 25 symbols / 25 labels of orders 1..5",
                      {"stream": "tables"}, observed={"POLAR_SYMBOLS": list(cp.POLAR_SYMBOLS), "all": dpu.ABERRATION_PRESETS.get("all")},
                      required={"symbols": SYMS, "labels": LABELS})
    for a, t in cp.POLAR_ALIASES.items():
        if ALIASES.get(a) != t:
            ctx.dist["tables:alias_table_differs_from_harness_copy"] += 1
    # malformed labels are rejected by the real basis (error branch; the model covers the 25 labels only)
    for lab in ["C12_c", "C1", "C1x_a"]:
        try:
            cp.aberration_surface_cartesian_basis(torch.tensor([0.1]), torch.tensor([0.2]), 1.0, [lab])
            r = "ok"
        except Exception as e:  # noqa
            r = type(e).__name__
        mm = drv.ask({"op": "basis", "lam": f2b(1.0), "pts": [[f2b(0.1), f2b(0.2)]], "labels": [lab]})
        ctx.count()
        ctx.dist[f"basis:malformed_label:{r}"] += 1
        if ("err" in mm) != (r != "ok"):
            ctx.disagree("basis-labels", {"stream": "label", "label": lab}, mm, r, note="malformed label acceptance")


EVAL = {"formula": eval_formula_case, "alias": eval_alias_case, "fit": eval_fit_case}


def run(ctx):
    from qv.driver import Driver
    torch, _ = _mods()
    torch.manual_seed(0)
    drv = Driver("C12")
    try:
        from translator import aberr2lean
        ctx.extra["translator_notes"] = {"units_kept_from_reference_text": list(aberr2lean.NOTES),
                                         "tracer_gave_up_syntactic_used": list(aberr2lean.INFO)}
        ctx.dist[f"translator:units_not_retranslated={len(aberr2lean.NOTES)}"] += 1
        check_tables(ctx, drv)
        nf, na, nfit = ctx.n(300, 12000), ctx.n(700, 30000), ctx.n(120, 4000)
        for i in range(nf):
            eval_formula_case(ctx, drv, gen_formula_case(ctx.rng.fork(i)))
        for i in range(na):
            eval_alias_case(ctx, drv, gen_alias_case(ctx.rng.fork(100000 + i)))
        for i in range(nfit):
            eval_fit_case(ctx, drv, gen_fit_case(ctx.rng.fork(200000 + i)))
        ctx.extra["case_counts"] = {"formula": nf, "alias": na, "fit": nfit, "points_per_formula_case": 6}
        from . import c12_ext as cx
        cx.run(ctx, drv)          # histories / rejected calls / entry points (growth round 5)
        from . import c12_g6 as g6
        g6.run(ctx, drv)          # fixed blocks: max_order / top harmonics / branch cut / fit quadrants / grad grid / twins (growth round 6)
    finally:
        drv.close()


def replay(ctx, rep):
    from qv.driver import Driver
    case = rep.get("case") or (rep.get("correspondence_disagreements") or rep.get("disagreements") or [{}])[0].get("case")
    if not case:
        print("replay file names no case (broken obligation without failing input):", rep.get("broken_obligations"))
        return False
    drv = Driver("C12")
    try:
        from . import c12_ext as cx
        if case.get("stream") in EVAL:
            EVAL[case["stream"]](ctx, drv, case)
        elif case.get("stream") in cx.EVAL:
            cx.EVAL[case["stream"]](ctx, drv, case)
        elif case.get("stream") in ("order", "gradgrid", "twin"):
            from . import c12_g6 as g6
            g6.EVAL[case["stream"]](ctx, drv, case)
        else:
            check_tables(ctx, drv)
    finally:
        drv.close()
    return True
