"""C08, growth round 6 — FIXED blocks (independent of VERIF_SEED) along the size / count / repetition themes:

* `big_array_stream`: an object holding ONE ndarray larger than 2**24 bytes (float32 2049 x 2048 = 16 785 408 bytes;
  zarr chunks it into 8 chunk rows x 4 chunk columns) — a fault at every primitive of its save INCLUDING every
  chunk-file write of that array (store level, below `Array.__setitem__`) and every member write of the zip
  assembly; a loaded array with zeros / a missing attribute is a partial object.
* `many_entries_recipes`: object graphs with 14 and 101 attributes, so that fault positions run over two- and
  three-digit write indices up to the very last write (enumerated by `run_config`, faults="all" / "thresholds").
* `two_targets_stream`: two objects, three targets alive at once in one directory (zip, dir, zip); the second of two
  consecutive saves of the same object faulted; write-once calls in between; compared call by call with
  `runFull` / `succeededFullIds` (driver op `fullhistory`), and every path other than the call's target must keep
  its bytes."""
import contextlib
import io
import os
import shutil
import time

from . import ser_common as sc
from .c08_hooks import EXC_CLASSES, Injected, InjectedOSError, Recorder, instrumented, to_steps

BIG_SHAPE = (2049, 2048)
_BIG = {}


def _big_array():
    import numpy as np
    if "a" not in _BIG:
        n = BIG_SHAPE[0] * BIG_SHAPE[1]
        _BIG["a"] = (np.arange(n, dtype=np.int64) % 251 + 1).astype(np.float32).reshape(BIG_SHAPE)   # no zero anywhere
        _BIG["a"].setflags(write=False)
    return _BIG["a"]


def _big_obj(tag):
    from .ser_classes import SB
    o = SB()
    o.tag = tag
    o.big = _big_array()
    o.tail = "end"
    return o


def _same_big(o, tag):
    import numpy as np
    b = getattr(o, "big", None)
    if getattr(o, "tag", None) != tag or getattr(o, "tail", None) != "end" or not isinstance(b, np.ndarray):
        return False, f"attributes present: {sorted(k for k in vars(o) if not k.startswith('_'))[:6]}"
    if b.shape != BIG_SHAPE or b.dtype != np.float32:
        return False, f"array {b.dtype}{b.shape}"
    if not np.array_equal(b, _big_array()):
        return False, f"array differs in {int((b != _big_array()).sum())} elements, {int((b == 0).sum())} of them zero-filled"
    return True, None


def drain_zarr():
    """zarr runs the chunk writes of one assignment as tasks on its own event-loop thread and does not cancel
    the others when one raises: wait until that loop is idle, so that nothing of the failed call is still running
    when the filesystem is inspected (zarr-private handle, resolved defensively)"""
    import asyncio
    try:
        from zarr.core.sync import _get_loop
        loop = _get_loop()
    except Exception:  # noqa
        time.sleep(0.05)
        return "no-loop-handle"
    t0 = time.time()
    while time.time() - t0 < 5.0:
        try:
            pending = [t for t in asyncio.all_tasks(loop) if not t.done()]
        except RuntimeError:
            pending = [1]
        if not pending:
            return None
        time.sleep(0.002)
    return "drain-timeout"


def big_array_stream(ctx, drv, only=None):
    import zarr
    from quantem.core.io import serialize
    from . import c08 as m
    scratch = os.path.join(os.environ.get("QVERIF_SCRATCH", "/tmp"), "c08")
    obj = _big_obj(5)
    old_recipe = ["obj", "SB", [["old", ["scalar", sc.S(1)]]]]
    old_obj = sc.Builder(None).build(old_recipe)
    NEW = 7
    for ci, (store, mode, pre) in enumerate((("zip", "w", "absent"), ("dir", "o", "earlier"))):
        if only is not None and only != ci:
            continue
        base = os.path.join(scratch, f"big{ci}")
        zip_store = store == "zip"
        tpl = base + "-tpl"
        if os.path.lexists(tpl):
            (shutil.rmtree if os.path.isdir(tpl) else os.remove)(tpl)
        if pre == "earlier":
            with contextlib.redirect_stdout(io.StringIO()):
                old_obj.save(tpl + (".zip" if zip_store else ""), store=store)
            if zip_store:
                os.replace(tpl + ".zip", tpl)
        pre_content = m.PRE_CONTENT[pre]
        fs0 = [["sib", ["foreign", 9]]] + ([["T", pre_content]] if pre_content else [])

        def one(fault, exc_cls):
            target = m.setup_sandbox(base, store, pre, old_obj, template=tpl)
            pre_hash = m.tree_hash(target)
            sib = m.sibling_hashes(base)
            rec = Recorder(target, fault, exc_cls, chunk_level=True)
            raised = None
            with zarr.config.set({"async.concurrency": 1}), instrumented(rec):
                rec.start()
                try:
                    with contextlib.redirect_stdout(io.StringIO()):
                        obj.save(target, mode=mode, store=store)
                except EXC_CLASSES:
                    raised = "Injected"
                except Exception as e:  # noqa
                    raised = type(e).__name__
                finally:
                    note = drain_zarr()
                    rec.stop()
            if note:
                ctx.extra.setdefault("hook_notes", [])
                if note not in ctx.extra["hook_notes"]:
                    ctx.extra["hook_notes"].append(note)
            for nt in rec.notes:
                ctx.extra.setdefault("hook_notes", [])
                if nt not in ctx.extra["hook_notes"]:
                    ctx.extra["hook_notes"].append(nt)
            listing = sorted(os.listdir(base))
            post_hash = m.tree_hash(target)
            sib_ok = sib == m.sibling_hashes(base)
            extra = [p for p in listing if p not in m.SIBLINGS + (os.path.basename(target),)]
            detail = None
            if not os.path.lexists(target):
                state = "absent"
            elif pre == "earlier" and post_hash == pre_hash:
                state = "unchanged"
            else:
                try:
                    with contextlib.redirect_stdout(io.StringIO()):
                        o = serialize.load(target)
                    ok, detail = _same_big(o, 5)
                    state = "complete-new" if ok else "partial-loadable"
                except Exception as e:  # noqa
                    state, detail = "unreadable", type(e).__name__
            return rec.trace, raised, state, detail, sib_ok, extra

        trace, raised, state, detail, sib_ok, extra = one(None, Injected)
        steps = to_steps(trace, zip_store)
        n = len(trace)
        ctx.dist[f"big:chunk_writes:{trace.count('w:chunk')}"] += 1
        ctx.dist[f"big:data_writes:{trace.count('w:data')}"] += 1
        ctx.stat_max("big_trace_len", n)
        # every position, except that the 32 chunk-file writes are taken alternately by the two configurations
        for k in [None] + [k for k in range(n) if trace[k] != "w:chunk" or (k + ci) % 2 == 0 or trace[k - 1] != "w:chunk" or k + 1 == n
                           or trace[k + 1] != "w:chunk"]:
            ctx.count()
            if k is None:
                r = (trace, raised, state, detail, sib_ok, extra)
            else:
                # an exception inside zarr's event loop must be an `Exception` (asyncio re-raises KeyboardInterrupt /
                # SystemExit in the loop thread itself): ordinary exception / OSError(ENOSPC) in turn
                cls = (Injected, InjectedOSError)[k % 2] if trace[k] == "w:chunk" else m.exc_for(k, ci)
                r = one(k, cls)
            tr_k, raised_k, state_k, detail_k, sib_k, extra_k = r
            case = {"big": ci, "store": store, "mode": mode, "pre": pre, "fault": k,
                    "step": (trace[k] if k is not None else None), "shape": list(BIG_SHAPE), "dtype": "float32"}
            req = {"op": "run", "target": "T", "staged": "S", "id": NEW, "fs": fs0, "steps": steps}
            if k is not None:
                req["fault"] = k
            mo = drv.ask(req)
            if "ok" not in mo:
                raise RuntimeError(mo)
            fsm = dict((p, c) for p, c in mo["ok"]["fs"])
            model_view = {"raised": bool(mo["ok"]["raised"]), "target": m.model_class(fsm.get("T"), NEW, pre), "staged_left": "S" in fsm}
            impl_view = {"raised": raised_k is not None, "target": state_k, "staged_left": bool(extra_k)}
            if model_view != impl_view:
                ctx.disagree("big-array-fault-outcome", case, model_view, impl_view, note=f"k={k} {case['step']}")
            if state_k == "partial-loadable":
                ctx.pred_fail(f"partial-loadable:{store}", "a save of a large array left a loadable object that is not the complete one", case,
                              observed=detail_k, required="absent / unreadable / complete earlier object / the complete new object")
            if raised_k is None and state_k != "complete-new":
                ctx.pred_fail("success-incomplete", "save returned normally but the target does not load to the saved object", case,
                              observed=[state_k, detail_k], required="complete-new")
            if not sib_k:
                ctx.pred_fail("sibling-altered", "a save altered a path other than its target", case, observed="hash changed", required="unchanged")
            if extra_k:
                ctx.pred_fail("leftover-path", "a save left an extra path next to its target", case, observed=extra_k, required=[])
            ctx.mark(("big", store, mode, pre, case["step"], state_k, raised_k is not None))
            ctx.dist[f"big:outcome:{state_k}"] += 1
        shutil.rmtree(base, ignore_errors=True)
        if os.path.lexists(tpl):
            (shutil.rmtree if os.path.isdir(tpl) else os.remove)(tpl)


def many_entries_recipes():
    """(name, recipe) — 14 and 101 attributes (arrays, scalars, strings, lists)"""
    def nd(i):
        return ["nd", "float32", [3], [sc.S(float(i)), sc.S(0.5), sc.S(-1.0)], "C"]
    g14 = ["obj", "SB", [[f"a{i:02d}", nd(i)] for i in range(12)] + [["s0", ["scalar", sc.S(3)]], ["s1", ["scalar", sc.S("x")]]]]
    attrs = []
    for i in range(101):
        if i % 12 == 5:
            attrs.append([f"e{i:03d}", ["nd", "int32", [2], [sc.S(i), sc.S(-i)], "C"]])
        elif i % 40 == 7:
            attrs.append([f"e{i:03d}", ["list", [["scalar", sc.S(i)], ["scalar", sc.S(i + 1)]]]])
        elif i % 2 == 1:
            attrs.append([f"e{i:03d}", ["scalar", sc.S(i)]])
        else:
            attrs.append([f"e{i:03d}", ["scalar", sc.S(f"v{i}")]])
    g101 = ["obj", "SB", attrs]
    return [("g101", g101)]      # (write indices >= 10 are reached by the random graphs of the main stream already)


def many_entries_stream(ctx, drv, idx0=50000):
    from . import c08 as m
    old_recipe = ["obj", "SB", [["old", ["scalar", sc.S(1)]], ["arr", ["nd", "int32", [2], [sc.S(1), sc.S(2)], "C"]]]]
    idx = idx0
    for name, recipe in many_entries_recipes():
        faults = "stride" if name == "g14" else "thresholds"
        for store, mode, pre in (("zip", "w", "absent"), ("dir", "o", "earlier")):
            m.run_config(ctx, drv, recipe, old_recipe, store, mode, pre, idx, "exact", stem=None, faults=faults)
            ctx.dist[f"many:{name}:{store}"] += 1
            idx += 1


def _small_obj(i):
    import numpy as np
    from .ser_classes import SA, SB
    o = (SA, SB)[i % 2]()
    o.ident = i
    o.arr = np.arange(6, dtype=np.float64).reshape(2, 3) + i
    o.name = f"object-{i}"
    o.items = [i, i + 1, {"k": i}]
    return o


def _loads_to(path, o_ref):
    from quantem.core.io import serialize
    with contextlib.redirect_stdout(io.StringIO()):
        o = serialize.load(path)
    return sc.prop_equal(sc.observe(o_ref), sc.canon_order(sc.observe(o))) is None


def two_targets_stream(ctx, drv):
    """three targets alive at once in one directory; script of calls (object, target, mode, faulted?) — the fault
    positions of the two faulted calls are enumerated over a fixed list"""
    from . import c08 as m
    scratch = os.path.join(os.environ.get("QVERIF_SCRATCH", "/tmp"), "c08")
    base = os.path.join(scratch, "two")
    names = {"A": ("obj.zip", "zip"), "B": ("objdir", "dir"), "C": ("second.zip", "zip")}
    # (object index, target, mode, call style, fault slot)
    script = [(1, "A", "w", "exact", None), (2, "B", "w", "auto", None), (2, "A", "o", "exact", "f1"), (1, "B", "w", "exact", None),
              (1, "B", "o", "exact", None), (1, "B", "o", "pathlib", "f2"), (2, "C", "w", "noext", None), (1, "A", "w", "auto", None)]
    # dry run of the whole script without faults: number of primitives of the two faulted calls
    counts0 = {}

    def run_script(f1, f2, observe):
        shutil.rmtree(base, ignore_errors=True)
        os.makedirs(os.path.join(base, "sibdir", "inner"))
        open(os.path.join(base, "sib.txt"), "w").write("sibling\n")
        open(os.path.join(base, "sibdir", "inner", "x.bin"), "wb").write(b"\x00\x01\x02")
        objs = {1: _small_obj(1), 2: _small_obj(2)}
        holds = {}          # target -> object index it must load to (None = absent)
        rows, calls, lens = [], [], {}
        for ci, (oi, tn, mode, call, slot) in enumerate(script):
            fname, store = names[tn]
            target = os.path.join(base, fname)
            fault = {"f1": f1, "f2": f2}.get(slot)
            before = {n: m.tree_hash(os.path.join(base, n)) for n in sorted(os.listdir(base))}
            rec = Recorder(target, fault, m.exc_for(fault, ci))
            raised = None
            with instrumented(rec):
                rec.start()
                try:
                    with contextlib.redirect_stdout(io.StringIO()):
                        if call == "noext":
                            objs[oi].save(target[:-4], mode=mode, store="zip")
                        elif call == "auto":
                            objs[oi].save(target, mode=mode)
                        elif call == "pathlib":
                            import pathlib
                            objs[oi].save(pathlib.Path(target), mode=mode, store=store)
                        else:
                            objs[oi].save(target, mode=mode, store=store)
                except EXC_CLASSES:
                    raised = "Injected"
                except Exception as e:  # noqa
                    raised = type(e).__name__
                finally:
                    rec.stop()
            steps = to_steps(rec.trace, store == "zip")
            lens[slot] = len(rec.trace)
            nt_nw = (steps.count("tmpWrite"), steps.count("stageWrite"))
            if fault is None:
                counts0.setdefault(ci, nt_nw)
            else:
                nt_nw = counts0.get(ci, nt_nw)     # sizes of the un-faulted run of the same call from the same state
            after = {n: m.tree_hash(os.path.join(base, n)) for n in sorted(os.listdir(base))}
            existed = fname in before
            cid = 10 + ci
            # what the call is for the model: the arguments as given + sizes of the recorded trace of THIS call
            # (a refused call records nothing; the model does not look at the sizes then)
            calls.append(dict({"path": (fname[:-4] if call == "noext" else fname), "mode": mode,
                               "store": ("auto" if call == "auto" else store), "level": 4, "id": cid, "staged": f"S{cid}",
                               "nTmp": nt_nw[0], "nWrites": nt_nw[1]},
                              **({"fault": fault} if fault is not None else {})))
            if not observe:
                continue
            ctx.count()
            case = {"two_targets": True, "f1": f1, "f2": f2, "call": ci, "script": [list(s) for s in script]}
            changed = sorted(n for n in set(before) | set(after) if before.get(n) != after.get(n))
            others = [n for n in changed if n != fname]
            if others:
                key = "leftover-path" if any(n not in before for n in others) else "sibling-altered"
                ctx.pred_fail(key, "a save altered / created a path other than its target (several targets alive)", case,
                              observed=others, required=[])
            if mode != "o" and existed:
                if raised != "FileExistsError":
                    ctx.pred_fail("write-once", "write-once mode did not refuse an existing target (several targets alive)", case,
                                  observed=raised, required="FileExistsError")
                if fname in changed:
                    ctx.pred_fail("write-once-modified", "write-once mode modified an existing target", case, observed="hash changed",
                                  required="unchanged")
            # state of the target of this call
            if fname not in after:
                st = "absent"
                holds[tn] = None
            elif fname not in changed and not (raised is None and (mode == "o" or not existed)):
                st = "unchanged"          # (a successful re-save of the same object may reproduce the same bytes: loaded below)
            else:
                try:
                    st = "complete-new" if _loads_to(target, objs[oi]) else "partial-loadable"
                except Exception as e:  # noqa
                    st = "unreadable"
                if st == "complete-new":
                    holds[tn] = oi
            if st == "partial-loadable":
                ctx.pred_fail(f"partial-loadable:{store}", "a save left a loadable object that is not a complete one (several targets alive)",
                              case, observed=st, required="absent / unreadable / unchanged / complete new object")
            if raised is None and st != "complete-new":
                ctx.pred_fail("success-incomplete", "save returned normally but the target does not load to the saved object", case,
                              observed=st, required="complete-new")
            rows.append({"raised": raised is not None,
                         "fs": sorted([names[t][0], ("complete", 0)] for t in holds if holds[t] is not None)})
            ctx.mark(("two", ci, st, raised is not None, slot and {"f1": f1, "f2": f2}[slot] is not None))
        if observe:
            # every target still alive loads to the complete object the history says it holds
            for tn, oi in holds.items():
                if oi is not None:
                    try:
                        ok = _loads_to(os.path.join(base, names[tn][0]), objs[oi])
                    except Exception:  # noqa
                        ok = False
                    if not ok:
                        ctx.pred_fail(f"history-partial-or-stale:{names[tn][1]}", "after a history onto several targets a target does not load to "
                                      "the complete object of the last successful save onto it", {"two_targets": True, "f1": f1, "f2": f2, "target": tn},
                                      observed="differs / unreadable", required=f"object {oi}")
            # ---- model: runFull on the same calls, prefix by prefix: which targets exist, which calls returned normally
            mo = drv.ask({"op": "fullhistory", "fs": [["sib.txt", ["foreign", 9]], ["sibdir", ["foreign", 8]]], "calls": calls})
            mrows = mo.get("ok") or []
            model_cmp, prev = [], 0
            for i in range(1, len(mrows)):
                fsm = [p for p, c in mrows[i]["fs"] if p not in ("sib.txt", "sibdir")]
                partial = [p for p, c in mrows[i]["fs"] if c[0] == "partial"]
                ns = len(mrows[i]["succeeded"])
                model_cmp.append({"raised": ns == prev, "exists": sorted(fsm), "partial_or_staged": partial})
                prev = ns
            impl_cmp = [{"raised": r["raised"], "exists": sorted(p for p, _ in r["fs"]), "partial_or_staged": []} for r in rows]
            if model_cmp != impl_cmp:
                ctx.disagree("two-targets-history", {"two_targets": True, "f1": f1, "f2": f2}, model_cmp, impl_cmp,
                             note="every prefix of a history of complete calls onto three targets vs runFull")
        shutil.rmtree(base, ignore_errors=True)
        return lens

    lens = run_script(None, None, True)
    n1, n2 = lens.get("f1", 0), lens.get("f2", 0)

    def picks(n):
        return sorted({1, n // 2, n - 3, n - 2, n - 1} & set(range(n)))
    for k in picks(n1):
        run_script(k, None, True)
    for k in picks(n2):
        run_script(None, k, True)
    ctx.dist["two_targets_histories"] += 1 + len(picks(n1)) + len(picks(n2))
