"""C08 — failed saves leave no loadable partial object; write-once never overwrites; siblings
untouched.  Exhaustive fault injection at every primitive write of the real save(), compared
with Model/SaveFs.lean executing the recorded step trace; the property's clauses are evaluated
on the real filesystem after every faulted call."""
import contextlib
import hashlib
import io
import json
import os
import pathlib
import shutil

from . import c08_big
from . import c08_front
from . import ser_common as sc

LEVEL = "proof"
MANIFEST_ENTRY = {
    "category": "proof",
    "text": "Lean 4 theorems over (1) a step-level model of save()'s filesystem protocol (Model/SaveFs.lean: staging next to the target, install, discard on failure) and (2) a branch-by-branch model of save()'s FRONT END (Model/SaveFront.lean: compression-level validation, store inference from the path, '.zip' suffix normalisation, the write-once existence check, the directory-extension check and the unknown-store check, in the order of the code). Proved for every store, number of writes, pre-state and fault position: the target is afterwards unchanged, absent or the complete new object, never partial (no_partial, never_partial); a non-raising call leaves the complete object; a call that raises installs nothing (raise_never_installs); no staging path is ever left behind (staged_gone); no other path changes (others_untouched). Proved for every spelling of the arguments: a call whose RESOLVED target exists raises before any effect for EVERY mode string other than 'o', every store (also 'auto', also unknown ones) and every level, and the filesystem after it is the filesystem before it (front_write_once, saveFull_write_once, write_once_fs_unchanged); exactly which calls get past the front end and which path they name (front_ok_iff, targetOf_cases, front_zip_suffix); save('run', store='zip') never alters the path 'run' (saveFull_stem_untouched); one complete call changes at most its resolved target (saveFull_others_untouched, saveFull_no_partial). Proved over HISTORIES of calls with any faults, rejected calls included: onto one target the target is always its initial content, absent, or the complete object of a call that returned normally (saves_history); onto ANY targets a path that is never a target or staging path is untouched (history_others_untouched) and a path that is absent and never a target stays absent — nothing is ever left behind (history_no_leftover). Tied to the code on every run by injecting an exception (Exception, OSError, KeyboardInterrupt, SystemExit in rotation) at EVERY primitive call of the real save() — zarr root/group/attribute/array/chunk-data writes, dill.dumps/torch.save, os.makedirs, ZipFile open/write/close, os.remove/shutil.rmtree/os.replace of the install — hooked at the LIBRARIES (not at quantem-private helpers), exhaustive in the fault position for each generated graph, both stores, both modes, five call styles (exact, extension-less zip, store='auto', pathlib.Path, relative path) and eleven pre-states (absent, earlier checkpoint, file, directory, zero-byte file, empty directory, directory of zero-length placeholder files, symlink to a sibling file, symlink to a sibling directory, dangling symlink); the recorded primitive trace is executed by the model and outcomes are compared, the order of the store writes is compared with traceSave, the model's own step list with the recorded trace shape; a front-end stream compares every argument spelling x pre-state with `front`; histories (different and re-saved objects, both modes, faults at random primitives, calls rejected by validation) are compared prefix by prefix with runCalls. Growth 6 (Props/C08Ext.lean, EXTRA_PROPS): the three models are COMPOSED — for whole histories of complete calls (arguments as given, rejected calls, faults anywhere) onto ANY number of targets alive at once, every path that is not a staging path is afterwards its initial content, absent, or the complete object of a call that named it and returned normally (runFull_history, runFull_never_partial); paths no call names are untouched and absent ones stay absent (runFull_others_untouched, runFull_no_leftover); without mode 'o' an existing path is never modified by any history (runFull_write_once); one call refines a map update (applyFull_refines_spec); the install / discard steps of the protocol model are `_install()` / `_discard()` of the kind-level model for every kind of entry (install_refines_steps, discard_refines_step). Fixed blocks tie these to the code: ONE ndarray above 2**24 bytes (float32 2049x2048, 8x4 chunks) with a fault at every primitive of its save including every array-data write on ANY thread and every chunk-file write at the zarr store level (a failed chunk write keeps failing for that array), both stores / both modes; a graph of 101 attributes with faults around write indices 10, 100, 128 and the last ones; a script of 8 calls onto three targets alive at once (second of two consecutive saves faulted, write-once calls in between) compared prefix by prefix with runFull (driver op fullhistory), every path other than the call's target must keep its bytes. The property's clauses are evaluated on the real filesystem (hashes of every sibling and of link referents BEFORE load(), listing of the sandbox, load() of the target).",
    "note": "Chunk-level faults are PERSISTENT for the struck array (a transient failure of one chunk file lets zarr's other, un-cancelled chunk tasks re-create the staging directory after _discard() — timing dependent, outside the fault model, reported in reports/growth6-C08.md); KeyboardInterrupt/SystemExit are not injected inside zarr's event loop. Measured, not proved: that the recorded primitive trace is what save() does (the step list is recorded from the real code on every run and compared with the model's `steps`), the number of files zarr writes per group/array, and os/shutil/zipfile/zarr semantics of the primitives (remove, rmtree, replace onto file / directory / symlink; os.path.lexists/isdir/islink). Trusted: Lean kernel + standard axioms; faults are exceptions raised at the entry of a primitive (no process kill / power loss / concurrent writers / TOCTOU between the existence check and the install). If AutoSerialize._write_ndarray/_write_bytes are renamed or inlined the check keeps counting every write at the zarr level and only stops telling arrays from byte blobs in the write-order comparison (evidence: hook_notes).",
    "technique": "Lean 4 proof (induction over step lists and histories, all fault positions; case analysis of the front end) + exhaustive fault-injection correspondence at library-level primitives",
}
RULE = ("for each generated object graph x store x mode x pre-state x call style the fault position k is enumerated over the primitive "
        "calls of save() (all of them for mode 'w' onto an absent target, mode 'o' onto an earlier checkpoint / a foreign target of the dir "
        "store; every second temp-dir position + all later ones for the zip store in mode 'o'; every second + the install phase for mode 'o' "
        "onto an absent target; the install phase + one more for three further foreign kinds), plus the fault-free run, naturally failing "
        "saves, histories of 3-5 calls and front-end cases; one evaluation = one save + observation; distinct non-trivial = distinct "
        "(store, mode, pre-state, call style, step kind at the fault, outcome class) / (history shape) / (front-end branch, mode class, pre-states)")
TRUSTED = ["os / shutil / zipfile / zarr filesystem behaviour of the primitives (observed on the real filesystem on every run, not modelled below the step level)",
           "exceptions injected at primitive entry (Exception, OSError, KeyboardInterrupt, SystemExit) stand for 'an error at any write'",
           "the library-level hook points (zarr Group/Attributes/Array methods, zipfile.ZipFile, os.replace/rename/remove/unlink/rmdir/makedirs/mkdir, "
           "shutil.rmtree/move, dill.dumps, torch.save) see every primitive save() performs: a write routed around all of them would not be a fault position"]
ASSUMPTIONS = ["no process kill, power loss, concurrent writer or TOCTOU race is modelled",
               "a dangling symbolic link at the target counts as an existing target (os.path.lexists), as for O_EXCL creation"]
EXPLANATION = "see MANIFEST level text"
EXTRA_PROPS = ["QuantemModel.Props.C08Ext"]   # growth 6: end-to-end theorems over histories of complete calls onto any targets


from .c08_hooks import (EXC_CLASSES, Injected, InjectedExit, InjectedInterrupt, InjectedOSError, Recorder,  # noqa: F401
                        collapse, instrumented, to_steps, write_classes)


def exc_for(fault, idx):
    """the exception class injected at fault position `fault` of configuration `idx`: 'fails part-way for
    any reason' — an ordinary exception, an OSError (disk full), and, every third position, an
    interruption that is NOT an `Exception` (KeyboardInterrupt / SystemExit)"""
    if fault is None:
        return Injected
    return (InjectedInterrupt, Injected, InjectedOSError, InjectedExit, Injected, InjectedOSError)[(fault + idx) % 6]


def _set_order_sensitive(v):
    t = v[0]
    if t == "set":
        shapes = {("path" if e[0] == "path" else "scalar") if e[0] in ("scalar", "np", "path") else "other" for e in v[1]}
        if len(shapes) > 1 or "other" in shapes:
            return True
        return False
    if t in ("list", "tuple"):
        return any(_set_order_sensitive(e) for e in v[1])
    if t == "dict":
        return any(_set_order_sensitive(e) for _, e in v[1])
    if t == "obj":
        return any(_set_order_sensitive(e) for _, e in v[2])
    return False


def tree_hash(path):
    if not os.path.lexists(path):
        return None
    if os.path.islink(path):
        return "l:" + os.readlink(path)      # the link itself; what it points at is hashed as a sibling
    if os.path.isfile(path):
        return "f:" + hashlib.sha1(open(path, "rb").read()).hexdigest()
    h = hashlib.sha1()
    for dp, dn, fn in sorted(os.walk(path)):
        dn.sort()
        for f in sorted(fn):
            p = os.path.join(dp, f)
            h.update(os.path.relpath(p, path).encode())
            h.update(open(p, "rb").read())
        h.update(("|".join(dn)).encode())
    return "d:" + h.hexdigest()


# pre-existing targets.  `FOREIGN` are paths that are not objects written by save(): ordinary and
# degenerate files / directories (a zero-byte file, an empty directory, a directory that holds
# only zero-length placeholder files — all of them "hold no data" but EXIST) and symbolic links
# (to a sibling file, to a sibling directory, to nothing).
FOREIGN = ("file", "dir", "emptyfile", "emptydir", "placeholderdir", "linkfile", "linkdir", "dangling")
PRE_CONTENT = {"absent": None, "file": ["foreign", 1], "dir": ["foreign", 2], "earlier": ["complete", 3],
               "emptyfile": ["foreign", 4], "emptydir": ["foreign", 5], "placeholderdir": ["foreign", 6],
               "linkfile": ["foreign", 10], "linkdir": ["foreign", 11], "dangling": ["foreign", 12]}
SIBLINGS = ("sib.txt", "sibdir", "linked.txt", "linkeddir")     # every other name next to the target is a leftover


def sibling_hashes(base, more=()):
    return tuple(tree_hash(os.path.join(base, n)) for n in SIBLINGS) + tuple(tree_hash(m) for m in more)


def _copy(src, dst):
    (shutil.copytree if os.path.isdir(src) else shutil.copy2)(src, dst)


def setup_sandbox(base, store, pre, old_obj, template=None):
    """`template`: a path that already holds `old_obj.save(..., store=store)` (copied instead of saved again)"""
    shutil.rmtree(base, ignore_errors=True)
    os.makedirs(os.path.join(base, "sibdir", "inner"))
    open(os.path.join(base, "sib.txt"), "w").write("sibling\n")
    open(os.path.join(base, "sibdir", "inner", "x.bin"), "wb").write(b"\x00\x01\x02")
    target = os.path.join(base, "obj.zip" if store == "zip" else "objdir")
    if pre == "file":
        open(target, "w").write("not an archive\n")
    elif pre == "dir":
        os.makedirs(os.path.join(target, "junk"))
        open(os.path.join(target, "junk", "f"), "w").write("x")
    elif pre == "emptyfile":      # the smallest pre-existing targets: a zero-byte file, an empty directory
        open(target, "w").close()
    elif pre == "emptydir":
        os.makedirs(target)
    elif pre == "placeholderdir":   # a directory reserved with zero-length placeholder files: 0 bytes stored, but it exists
        os.makedirs(os.path.join(target, "pkg"))
        open(os.path.join(target, ".gitkeep"), "w").close()
        open(os.path.join(target, "pkg", "__init__.py"), "w").close()
    elif pre == "linkfile":       # the target is a symbolic link; what it points at is ANOTHER path
        open(os.path.join(base, "linked.txt"), "w").write("linked file\n")
        os.symlink("linked.txt", target)
    elif pre == "linkdir":
        os.makedirs(os.path.join(base, "linkeddir", "deep"))
        open(os.path.join(base, "linkeddir", "deep", "keep.bin"), "wb").write(b"\x07" * 9)
        os.symlink("linkeddir", target)
    elif pre == "dangling":
        os.symlink("nowhere-to-be-found", target)
    elif pre == "earlier":
        if template is not None and os.path.lexists(template):
            _copy(template, target)
        else:
            with contextlib.redirect_stdout(io.StringIO()):
                old_obj.save(target, store=store)
    return target


def observe_target(target, spec_new, spec_old, pre_hash, post_hash=None, verified=None):
    """`verified`: a set of tree hashes already shown (by loading) to be the complete earlier object — a target
    with the same bytes is not loaded again"""
    from quantem.core.io import serialize
    if not os.path.lexists(target):
        return "absent", None
    h = post_hash if post_hash is not None else tree_hash(target)
    if verified is not None and h == pre_hash and h in verified:
        return "unchanged", None
    if spec_old is None and pre_hash is not None and h == pre_hash:
        # a foreign path that is bit for bit (and link for link) what it was: not loaded — load() of a
        # foreign directory is create-or-open and would write zarr metadata into it (or through a link)
        return "unchanged", None
    try:
        with contextlib.redirect_stdout(io.StringIO()):
            o = serialize.load(target)
        ob = sc.canon_order(sc.observe(o))
    except Exception as e:  # noqa
        return ("unchanged" if h == pre_hash else "unreadable"), type(e).__name__
    if sc.prop_equal(spec_new, ob) is None:
        return "complete-new", None
    if spec_old is not None and sc.prop_equal(spec_old, ob) is None and h == pre_hash:
        if verified is not None:
            verified.add(h)
        return "unchanged", None
    return "partial-loadable", sc.short(ob, 300)


def model_class(content, new_id, pre):
    if content is None:
        return "absent"
    if content[0] == "complete":
        return "complete-new" if content[1] == new_id else "unchanged"
    if content[0] == "foreign":
        return "unchanged"
    return "partial-loadable"


def run_config(ctx, drv, recipe, old_recipe, store, mode, pre, idx, call="exact", stem="from-idx", faults="all"):
    """call: how the target is named in the save() call — "exact" (full path), "noext" (zip store,
    path without the .zip extension that save() appends), "auto" (store inferred from the path), "pathlib" (a
    pathlib.Path), "relative" (a relative spelling of the same path).
    faults: "all" = every primitive call of the save is a fault position; "tail" = the fault-free run, the last
    four positions (end of staging + install: the only ones where the KIND of the pre-existing target matters)
    and one earlier position; "stride" = the tail and every second position; "tmpstride" = every second position of
    the temp-dir phase of the zip store and every later position"""
    scratch = os.path.join(os.environ.get("QVERIF_SCRATCH", "/tmp"), "c08")
    base = os.path.join(scratch, f"s{idx}")
    builder = sc.Builder(None)
    obj = builder.build(recipe)
    old_obj = builder.build(old_recipe)
    spec_new, spec_old = sc.observe(obj), (sc.observe(old_obj) if pre == "earlier" else None)
    zip_store = store == "zip"
    case0 = {"recipe": recipe, "old_recipe": old_recipe, "store": store, "mode": mode, "pre": pre, "call": call, "idx": idx,
             "faults": faults}
    pre_content = PRE_CONTENT[pre]
    NEW = 7

    stem_sibling = None
    if call == "noext" and zip_store:
        # `save("obj", store="zip")` writes obj.zip: whatever already lives at the extension-less path `obj`
        # (a directory-store save of the same stem, a plain file) is another path and must stay as it is
        if stem == "from-idx":
            stem_sibling = ("dir" if idx % 4 == 0 else "file") if idx % 2 == 0 else None
        else:
            stem_sibling = stem
    case0["stem"] = stem_sibling

    # the earlier save / the same-stem directory are written once and copied into every fresh sandbox
    tpl, tpl_stem = base + "-tpl", base + "-tplstem"
    for t in (tpl, tpl_stem):
        if os.path.lexists(t):
            (shutil.rmtree if os.path.isdir(t) else os.remove)(t)
    with contextlib.redirect_stdout(io.StringIO()):
        if pre == "earlier":
            old_obj.save(tpl + (".zip" if zip_store else ""), store=store)
            if zip_store:
                os.replace(tpl + ".zip", tpl)
        if stem_sibling == "dir":
            old_obj.save(tpl_stem, store="dir")

    verified = set()
    obs = {}

    def one(fault):
        target = setup_sandbox(base, store, pre, old_obj, template=tpl)
        stem = target[: -len(".zip")] if zip_store else None
        if stem_sibling == "dir":
            _copy(tpl_stem, stem)
        elif stem_sibling == "file":
            open(stem, "w").write("same stem, other path\n")
        more = (stem,) if stem_sibling else ()
        pre_hash = tree_hash(target)
        sib_hash = sibling_hashes(base, more)
        exc_cls = exc_for(fault, idx)
        rec = Recorder(target, fault, exc_cls)
        raised = None
        with instrumented(rec):
            rec.start()
            try:
                with contextlib.redirect_stdout(io.StringIO()):
                    if call == "noext" and zip_store:
                        obj.save(target[: -len(".zip")], mode=mode, store="zip")
                    elif call == "auto":
                        obj.save(target, mode=mode)
                    elif call == "pathlib":
                        obj.save(pathlib.Path(target), mode=mode, store=store)
                    elif call == "relative":
                        # a relative spelling of the same target (resolved against the current directory)
                        obj.save(os.path.relpath(target), mode=mode, store=store)
                    else:
                        obj.save(target, mode=mode, store=store)
            except EXC_CLASSES:
                raised = "Injected"
            except Exception as e:  # noqa
                raised = type(e).__name__
            finally:
                rec.stop()
        listing = sorted(os.listdir(base))
        # hashes BEFORE load(): zarr.group() creates metadata in a foreign directory it is pointed at
        post_hash = tree_hash(target)
        obs["post_kind"] = c08_front.kind_of(target)
        sib_ok = sib_hash == sibling_hashes(base, more)
        state, detail = observe_target(target, spec_new, spec_old, pre_hash, post_hash, verified)
        extra = [p for p in listing if p not in SIBLINGS + (os.path.basename(target),)
                 and not (stem_sibling and p == os.path.basename(stem))]
        if rec.notes:
            for nt in rec.notes:
                ctx.extra.setdefault("hook_notes", [])
                if nt not in ctx.extra["hook_notes"]:
                    ctx.extra["hook_notes"].append(nt)
        return rec.trace, raised, state, detail, sib_ok, extra, (pre_hash, post_hash)

    trace, raised, state, detail, sib_ok, extra, hashes = one(None)
    post_kind0 = obs.get("post_kind")
    steps = to_steps(trace, zip_store)
    n = len(trace)
    fs0 = [["sib", ["foreign", 9]]] + ([["T", pre_content]] if pre_content else [])
    if faults == "tail":
        fault_list = [None] + sorted(set(range(max(0, n - 4), n)) | ({idx % n} if n else set()))
    elif faults == "stride":
        fault_list = [None] + sorted(set(range(max(0, n - 4), n)) | set(range(idx % 2, n, 2)))
    elif faults == "thresholds":
        # many-entry graphs: the positions around the count thresholds (one / two / three digits, 127|128, 255|256),
        # the first and the last ones, and a coarse stride in between
        near = {1, 9, 10, 11, 99, 100, 101, 127, 128, 255, 256}
        fault_list = [None] + sorted((near | set(range(max(0, n - 4), n)) | set(range(idx % 31, n, 31))) & set(range(n)))
    elif faults == "tmpstride":
        # zip store: while the tree is written to the system temp dir nothing next to the target exists yet —
        # every second position of that phase, every position from `ZipFile(staged, "w")` on
        fault_list = [None] + [k for k in range(n) if steps[k] != "tmpWrite" or k % 2 == idx % 2]
    else:
        fault_list = [None] + list(range(n))
    for k in fault_list:
        ctx.count()
        if k is None:
            tr_k, raised_k, state_k, detail_k, sib_k, extra_k, hashes_k = trace, raised, state, detail, sib_ok, extra, hashes
        else:
            tr_k, raised_k, state_k, detail_k, sib_k, extra_k, hashes_k = one(k)
        case = dict(case0, fault=k, step=(steps[k] if k is not None and k < len(steps) else None), trace=trace)
        # ---- model: the recorded trace executed with the same fault
        if mode == "w" and pre != "absent":
            m = drv.ask({"op": "save", "target": "T", "staged": "S", "id": NEW, "fs": fs0, "modeO": False, "levelOk": True,
                         "dirHasExt": False, "zip": zip_store, "nTmp": 0, "nWrites": 0, "fault": k})
            mm = m.get("ok", {})
            model_view = {"raised": "early:" + mm.get("early", "?"), "target": "unchanged", "staged_left": False}
            impl_view = {"raised": "early:" + (raised_k or "none"), "target": state_k, "staged_left": bool(extra_k)}
        else:
            req = {"op": "run", "target": "T", "staged": "S", "id": NEW, "fs": fs0, "steps": steps}
            if k is not None:
                req["fault"] = k
            m = drv.ask(req)
            if "ok" not in m:
                raise RuntimeError(m)
            fsm = dict((p, c) for p, c in m["ok"]["fs"])
            model_view = {"raised": bool(m["ok"]["raised"]), "target": model_class(fsm.get("T"), NEW, pre), "staged_left": "S" in fsm}
            impl_view = {"raised": raised_k is not None, "target": state_k, "staged_left": bool(extra_k)}
        if model_view != impl_view:
            ctx.disagree("fault-outcome", case, model_view, impl_view, note=f"k={k} {case['step']}")
        # ---- order of the primitive store writes vs the serializer model's write trace
        if k is None and not (mode == "w" and pre != "absent"):
            real_w, unlabelled = write_classes(trace)
            model_w = (drv.ask({"op": "trace", "v": spec_new}).get("ok") or [])
            if unlabelled:
                # the private helpers that tell an array from a byte blob are gone (renamed / inlined):
                # the order of the store writes is still compared, with the two classes collapsed
                ctx.dist["write_trace_array_bytes_collapsed"] += 1
                real_w, model_w = collapse(real_w), collapse(model_w)
            if _set_order_sensitive(spec_new):
                # a set is written in Python's (arbitrary) iteration order: when its members have
                # different write shapes the order of the trace is not defined — compare as multisets
                ctx.dist["write_trace_unordered_set"] += 1
                if sorted(model_w) != sorted(real_w):
                    ctx.disagree("write-trace", case, sorted(model_w), sorted(real_w), note="multiset of store writes of save()")
            elif model_w != real_w:
                ctx.disagree("write-trace", case, model_w, real_w, note="sequence of store writes of save()")
            ctx.dist["write_trace_compared"] += 1
        # ---- `_install()` against the KIND of entry it finds (Model/SaveInstall.lean), fault-free run
        if k is None and not (mode == "w" and pre != "absent"):
            staged_kind = "file" if zip_store else "dir:nonempty"
            pre_kind = c08_front.PRE_KIND.get(pre, staged_kind)      # "earlier": an object of the same store kind
            mi = drv.ask({"op": "kinds", "fn": "install", "a": staged_kind, "b": pre_kind}).get("ok")
            ii = {"raises": raised_k} if raised_k else {"a": ("left-behind" if extra_k else None), "b": post_kind0}
            if mi != ii:
                ctx.disagree("install-kinds", case, mi, ii, note=f"_install() of a staged {staged_kind} onto {pre_kind}")
        # ---- model's own step list has the same shape as the recorded trace (fault-free run only)
        if k is None and not (mode == "w" and pre != "absent"):
            nt = steps.count("tmpWrite")
            nw = steps.count("stageWrite")
            m2 = drv.ask({"op": "save", "target": "T", "staged": "S", "id": NEW, "fs": fs0, "modeO": mode == "o", "levelOk": True,
                          "dirHasExt": False, "zip": zip_store, "nTmp": nt, "nWrites": nw})
            if m2.get("ok", {}).get("steps") != steps:
                ctx.disagree("step-shape", case, m2.get("ok", {}).get("steps"), steps, note="order of primitive effects")
        # ---- property clauses on the real filesystem
        if state_k == "partial-loadable":
            ctx.pred_fail(f"partial-loadable:{store}", "a failed save left a loadable object that is not a complete one", case,
                          observed=detail_k, required="absent / unreadable / complete earlier object")
        if k is not None and raised_k is None:
            pass  # fault position never reached (cannot happen: k < n)
        if raised_k is None and state_k != "complete-new" and not (mode == "w" and pre != "absent"):
            ctx.pred_fail("success-incomplete", "save returned normally but the target does not load to the saved object", case,
                          observed=[state_k, detail_k], required="complete-new")
        if not sib_k:
            ctx.pred_fail("sibling-altered", "a save altered a path other than its target", case, observed="hash changed", required="unchanged")
        if extra_k:
            ctx.pred_fail("leftover-path", "a save left an extra path next to its target", case, observed=extra_k, required=[])
        if mode == "w" and pre != "absent":
            if raised_k != "FileExistsError":
                ctx.pred_fail("write-once", "write-once mode did not refuse an existing target", case,
                              observed=[raised_k, state_k], required=["FileExistsError", "unchanged"])
            if hashes_k[0] != hashes_k[1]:
                ctx.pred_fail("write-once-modified", "write-once mode modified an existing target", case, observed="hash changed", required="unchanged")
        ctx.mark((store, mode, pre, call, case["step"], state_k, raised_k is not None))
        ctx.dist[f"outcome:{state_k}"] += 1
        ctx.dist[f"step:{case['step']}"] += 1
        if mode == "w" and pre != "absent":
            break   # refused before any primitive: nothing to enumerate
    ctx.dist[f"trace_len:{min(n // 10 * 10, 60)}"] += 1
    ctx.dist[f"cfg:{store}:{mode}:{pre}"] += 1
    ctx.dist[f"call:{call}"] += 1
    ctx.sample({"recipe": recipe, "store": store, "mode": mode, "pre": pre, "trace": trace[:40], "fault_positions": n}, limit=2)
    shutil.rmtree(base, ignore_errors=True)
    for t in (tpl, tpl_stem):
        if os.path.lexists(t):
            (shutil.rmtree if os.path.isdir(t) else os.remove)(t)


class Unpicklable:
    def __reduce__(self):
        raise RuntimeError("cannot be serialised")


def _bad_values():
    """values the serializer cannot write (each makes save() raise on the unchanged tree): an object the
    dill fallback rejects, object-dtype / ragged / beyond-int64 arrays, a longdouble array, a generator —
    as an attribute and inside a list / dict"""
    import numpy as np
    return [
        ("unpicklable", lambda: Unpicklable()),
        ("object-array", lambda: np.array([1, "a", None], dtype=object)),
        ("ragged-array", lambda: np.array([[1, 2], [3]], dtype=object)),
        ("bigint-array", lambda: np.array([2 ** 70, 1], dtype=object)),
        ("longdouble-array", lambda: np.zeros(2, dtype=np.longdouble)),
        ("generator", lambda: (x for x in ())),
        ("object-array-in-dict", lambda: {"k": np.array([1, None], dtype=object), "j": 1}),
        ("unpicklable-in-list", lambda: [1, "a", Unpicklable()]),
    ]


def run_natural_failure(ctx, drv, recipe, store, pre, idx, kind=None):
    """second fault family: an attribute the dill fallback rejects (no injection)"""
    from quantem.core.io import serialize
    scratch = os.path.join(os.environ.get("QVERIF_SCRATCH", "/tmp"), "c08")
    base = os.path.join(scratch, f"n{idx}")
    builder = sc.Builder(None)
    obj = builder.build(recipe)
    old = builder.build(["obj", "SB", [["old", ["scalar", sc.S(1)]]]])
    keys = list(vars(obj))
    pos = idx % (len(keys) + 1)
    bads = _bad_values()
    bad_kind, bad_make = bads[(idx // 2) % len(bads)] if kind is None else next(b for b in bads if b[0] == kind)
    newvars = {}
    for i, k in enumerate(keys):
        if i == pos:
            newvars["bad"] = bad_make()
        newvars[k] = vars(obj)[k]
    if pos == len(keys):
        newvars["bad"] = bad_make()
    obj.__dict__.clear()
    obj.__dict__.update(newvars)
    target = setup_sandbox(base, store, pre, old)
    pre_hash = tree_hash(target)
    ctx.count()
    raised = None
    try:
        with contextlib.redirect_stdout(io.StringIO()):
            obj.save(target, mode="o", store=store)
    except Exception as e:  # noqa
        raised = type(e).__name__
    spec_old = sc.observe(old) if pre == "earlier" else None
    state, detail = observe_target(target, ["obj", "?", []], spec_old, pre_hash, tree_hash(target))
    case = {"recipe": recipe, "store": store, "pre": pre, "unpicklable_at": pos, "bad_kind": bad_kind, "idx": idx}
    listing = [p for p in sorted(os.listdir(base)) if p not in SIBLINGS + (os.path.basename(target),)]
    if raised is None:
        ctx.pred_fail(f"unserialisable-accepted:{bad_kind}", "an attribute the serializer cannot write did not make save raise: the target "
                      "loads to an object silently missing it", case, observed=state, required="exception, target absent or unchanged")
    if state in ("partial-loadable", "complete-new"):
        ctx.pred_fail(f"partial-loadable-natural:{store}", "a save that failed on an unserialisable attribute left a loadable object", case,
                      observed=detail, required="absent / unreadable / complete earlier object")
    if listing:
        ctx.pred_fail("leftover-path", "a failed save left an extra path next to its target", case, observed=listing, required=[])
    ctx.mark((store, "natural", pre, state, bad_kind))
    ctx.dist[f"natural-kind:{bad_kind}"] += 1
    ctx.dist[f"natural:{state}"] += 1
    shutil.rmtree(base, ignore_errors=True)


def history_stream(ctx, drv, n_hist):
    """histories of save() calls onto ONE target (theorem `saves_history`): different objects, both
    modes, a fault at a random primitive of some of the calls.  After every call the real target must
    be what it was before the history, absent, or the complete object of the most recent call that
    returned normally; the outcome of every prefix is compared with `runCalls` / `succeededIds`."""
    from quantem.core.io import serialize  # noqa: F401
    scratch = os.environ.get("QVERIF_SCRATCH", "/tmp/qverif-scratch")
    rng0 = ctx.rng.fork(880088)
    for h in range(n_hist):
        rng = rng0.fork(h)
        store = rng.choice(["zip", "dir"])
        zip_store = store == "zip"
        pre = rng.choice(["absent", "absent", "earlier", "earlier", "file", "emptydir", "placeholderdir", "linkdir", "dangling"])
        base = os.path.join(scratch, f"hist{h}")
        builder = sc.Builder(None)
        old_recipe = ["obj", "SB", [["old", ["scalar", sc.S(rng.randint(0, 99))]], ["arr", sc.gen_ndarray(rng)]]]
        old_obj = builder.build(old_recipe)
        target = setup_sandbox(base, store, pre, old_obj)
        pre_hash0 = tree_hash(target)
        pre_content = PRE_CONTENT[pre]
        fs0 = [["sib", ["foreign", 9]]] + ([["T", pre_content]] if pre_content else [])
        sib_hash = sibling_hashes(base)
        ncalls = rng.randint(3, 5)
        calls, recipes, specs = [], [], {3: sc.observe(old_obj) if pre == "earlier" else None}
        impl_rows = []
        last_ok = 3 if pre == "earlier" else None
        case = {"history": True, "store": store, "pre": pre, "old_recipe": old_recipe, "calls": []}
        for ci in range(ncalls):
            cid = 11 + ci
            g = sc.Gen(rng.fork(100 + ci), {"rng_in_container": True, "fallback_in_container": True})
            recipe = g.root(rng.weighted([(1, 3), (2, 2)]))
            # save, (fail,) save AGAIN: about a third of the calls re-save the object of the previous call — the same
            # Python object, after one more attribute was set on it (state kept on the object between calls is exposed)
            if ci > 0 and rng.chance(0.35):
                recipe = ["obj", prev_recipe[1], prev_recipe[2] + [[f"again{ci}", ["scalar", sc.S(ci)]]]]
                obj = prev_obj
                setattr(obj, f"again{ci}", ci)
                ctx.dist["history_resave_same_object"] += 1
            else:
                obj = builder.build(recipe)
            prev_obj, prev_recipe = obj, recipe
            specs[cid] = sc.observe(obj)
            mode = rng.choice(["o", "o", "w"])
            # dry run in a throw-away sandbox: number of primitives of this call from the current state
            exists = os.path.lexists(target)
            # exception safety: some calls of the history are REJECTED by argument validation (compression level
            # outside 0..9) — the caller carries on with valid calls afterwards
            bad_level = rng.choice([10, -1, 99]) if rng.chance(0.2) else None
            refused = (mode == "w" and exists) or bad_level is not None
            hash_before = tree_hash(target)
            kwargs = {"compression_level": bad_level} if bad_level is not None else {}
            k = None
            nt = nw = 0
            if not refused:
                dry = os.path.join(scratch, f"hist{h}-dry")
                shutil.rmtree(dry, ignore_errors=True)
                os.makedirs(dry)
                dtarget = os.path.join(dry, os.path.basename(target))
                if exists and os.path.islink(target):
                    os.symlink(os.readlink(target), dtarget)
                elif exists:
                    (shutil.copytree if os.path.isdir(target) else shutil.copy2)(target, dtarget)
                rec = Recorder(dtarget, None, Injected)
                with instrumented(rec):
                    rec.start()
                    try:
                        with contextlib.redirect_stdout(io.StringIO()):
                            obj.save(dtarget, mode=mode, store=store)
                    finally:
                        rec.stop()
                steps = to_steps(rec.trace, zip_store)
                n = len(rec.trace)
                nt, nw = steps.count("tmpWrite"), steps.count("stageWrite")
                shutil.rmtree(dry, ignore_errors=True)
                u = rng.random()
                if u < 0.35:
                    k = None
                elif u < 0.6:
                    k = n - 1 - rng.below(min(3, n))      # around the install steps
                else:
                    k = rng.below(n)
            exc_cls = exc_for(k, h)
            rec = Recorder(target, k, exc_cls)
            raised = None
            with instrumented(rec):
                rec.start()
                try:
                    with contextlib.redirect_stdout(io.StringIO()):
                        obj.save(target, mode=mode, store=store, **kwargs)
                except EXC_CLASSES:
                    raised = "Injected"
                except Exception as e:  # noqa
                    raised = type(e).__name__
                finally:
                    rec.stop()
            if raised is None:
                last_ok = cid
            case["calls"].append({"id": cid, "recipe": recipe, "mode": mode, "fault": k, "bad_level": bad_level})
            calls.append(dict({"staged": f"S{cid}", "id": cid, "modeO": mode == "o", "zip": zip_store, "nTmp": nt, "nWrites": nw,
                               "levelOk": bad_level is None},
                              **({"fault": k} if k is not None else {})))
            ctx.count()
            # ---- property on the real filesystem after this call
            post_hash = tree_hash(target)
            listing = sorted(os.listdir(base))
            extra = [p for p in listing if p not in SIBLINGS + (os.path.basename(target),)]
            sib_now = sibling_hashes(base)      # before load(): see observe_target
            if not os.path.lexists(target):
                state = "absent"
            elif post_hash == pre_hash0 and pre_content is not None and (pre_content[0] == "foreign" or last_ok == 3):
                state = "initial"
            else:
                try:
                    with contextlib.redirect_stdout(io.StringIO()):
                        ob = sc.canon_order(sc.observe(serialize.load(target)))
                    hit = [i for i, sp in specs.items() if sp is not None and sc.prop_equal(sp, ob) is None]
                    state = ("complete", last_ok) if last_ok in hit else ("loadable-other", hit[:3])
                except Exception as e:  # noqa
                    state = ("unreadable", type(e).__name__)
            impl_rows.append({"raised": raised is not None, "state": state})
            if isinstance(state, tuple) and state[0] in ("loadable-other", "unreadable") and not (pre == "file" and post_hash == pre_hash0):
                if state[0] == "loadable-other":
                    ctx.pred_fail(f"history-partial-or-stale:{store}", "after a history of saves the target loads to something that is not the "
                                  "complete object of the most recent successful call", dict(case), observed=list(state), required=["complete", last_ok])
            if extra:
                ctx.pred_fail("leftover-path", "a save of a history left an extra path next to its target", dict(case), observed=extra, required=[])
            if sib_hash != sib_now:
                ctx.pred_fail("sibling-altered", "a save of a history altered a path other than its target", dict(case), observed="hash changed", required="unchanged")
            if mode == "w" and exists and raised is None:
                ctx.pred_fail("write-once", "write-once mode did not refuse an existing target (history)", dict(case), observed=raised, required="FileExistsError")
            if mode == "w" and exists and post_hash != hash_before:
                ctx.pred_fail("write-once-modified", "write-once mode modified an existing target (history)", dict(case), observed="hash changed", required="unchanged")
            if bad_level is not None and (raised is None or post_hash != hash_before):
                ctx.pred_fail("rejected-call-altered", "a save() with an invalid compression level did not raise, or altered the target", dict(case),
                              observed=[raised, "hash changed" if post_hash != hash_before else "unchanged"], required=["ValueError", "unchanged"])
        # ---- model: every prefix of the history
        m = drv.ask({"op": "history", "target": "T", "staged": "S", "id": 0, "fs": fs0, "calls": calls})
        rows = m.get("ok") or []
        model_rows, prev_succ = [], []
        for i in range(1, len(rows)):
            fsm = dict((p, c) for p, c in rows[i]["fs"])
            succ = rows[i]["succeeded"]
            t = fsm.get("T")
            if t is None:
                st = "absent"
            elif t == pre_content:
                st = "initial"
            elif t[0] == "complete":
                st = ("complete", t[1])
            else:
                st = ("partial", t)
            model_rows.append({"raised": len(succ) == len(prev_succ), "state": st,
                               "staged_left": any(p.startswith("S") for p in fsm)})
            prev_succ = succ
        impl_cmp = [{"raised": r["raised"], "state": (list(r["state"]) if isinstance(r["state"], tuple) else r["state"]), "staged_left": False}
                    for r in impl_rows]
        model_cmp = [{"raised": r["raised"], "state": (list(r["state"]) if isinstance(r["state"], tuple) else r["state"]),
                      "staged_left": r["staged_left"]} for r in model_rows]
        if impl_cmp != model_cmp:
            ctx.disagree("save-history", case, model_cmp, impl_cmp, note="outcome of every prefix of a history of saves vs runCalls")
        ctx.mark(("history", store, pre, tuple((c["mode"], c["fault"] is not None) for c in case["calls"])))
        ctx.dist[f"history:{store}:{pre}"] += 1
        shutil.rmtree(base, ignore_errors=True)


def run(ctx):
    from qv.driver import Driver
    drv = Driver("C08")
    try:
        n = ctx.n(6, 45)
        idx = 0
        for i in range(n):
            rng = ctx.rng.fork(i)
            g = sc.Gen(rng, {"rng_in_container": True, "fallback_in_container": True})
            recipe = g.root(rng.weighted([(1, 3), (2, 3)]))
            old_recipe = ["obj", "SB", [["old", ["scalar", sc.S(rng.randint(0, 99))]], ["arr", sc.gen_ndarray(rng)]]]
            for si, store in enumerate(("zip", "dir")):
                # call styles and foreign pre-states are enumerated in a fixed rotation (not drawn), so that every
                # (mode, pre-state, call style) class is reached whatever the seed
                styles = ["exact", "noext", "auto", "pathlib", "relative"] if store == "zip" else ["exact", "auto", "pathlib", "relative"]
                foreign = FOREIGN[(i + 4 * si) % len(FOREIGN)]
                for ci, (mode, pre) in enumerate((("o", "absent"), ("o", "earlier"), ("o", foreign), ("w", "absent"))):
                    call = styles[(i + ci) % len(styles)]
                    # mode 'o' onto an absent target runs the code path of mode 'w' onto an absent target (enumerated
                    # exhaustively): every second position and the install phase
                    run_config(ctx, drv, recipe, old_recipe, store, mode, pre, idx, call,
                               stem=(["dir", "file", None][(i + ci) % 3] if call == "noext" else None),
                               faults=("stride" if (mode, pre) == ("o", "absent") else
                                       "tmpstride" if (store, mode) == ("zip", "o") else "all"))
                    idx += 1
                # the KIND of a pre-existing target only matters from the end of staging on (_install): three more
                # kinds per graph and store with the fault positions of that phase
                for j in range(1, 4):
                    pre = FOREIGN[(i + 4 * si + 2 * j + 1) % len(FOREIGN)]
                    run_config(ctx, drv, recipe, old_recipe, store, "o", pre, idx, styles[(i + j) % len(styles)], stem=None, faults="tail")
                    idx += 1
                # write-once onto an existing target is refused before any primitive: the whole grid
                # pre-state x call style is cheap and is run for every graph
                for pre in ("earlier",) + FOREIGN:
                    for call in styles:
                        run_config(ctx, drv, recipe, old_recipe, store, "w", pre, idx, call,
                                   stem=("dir" if call == "noext" and pre in ("file", "earlier") else None))
                        idx += 1
                for _ in range(2):
                    run_natural_failure(ctx, drv, recipe, store, rng.choice(["absent", "earlier"]), idx)
                    idx += 1
        history_stream(ctx, drv, ctx.n(10, 100))
        # growth 6: fixed blocks (independent of the seed) — large array / chunk-level faults, many-entry graphs,
        # several targets alive at once
        c08_big.big_array_stream(ctx, drv)
        c08_big.many_entries_stream(ctx, drv)
        c08_big.two_targets_stream(ctx, drv)
        c08_front.primitives_stream(ctx, drv)
        c08_front.front_stream(ctx, drv, ctx.n(120, 1000))
        ctx.exhaustive = False
        ctx.extra["exhaustive_in_fault_position_per_graph"] = True
        ctx.extra["fault_hooks"] = "library level: zarr.group/open_group, Group.require_group/create_group/create_array/..., Attributes.__setitem__/put, " \
            "Array.__setitem__/set_*_selection, dill.dumps, torch.save, os.makedirs/mkdir/remove/unlink/rmdir/replace/rename, shutil.rmtree/move, " \
            "zipfile.ZipFile.__init__/write/writestr/close; quantem-private _write_ndarray/_write_bytes only label array vs bytes"
        ctx.extra.setdefault("hook_notes", [])
    finally:
        drv.close()


def replay(ctx, rep):
    from qv.driver import Driver
    case = rep.get("case") or rep["correspondence_disagreements"][0]["case"]
    drv = Driver("C08")
    try:
        if case.get("history"):
            history_stream(ctx, drv, ctx.n(10, 100))
        elif "big" in case:
            c08_big.big_array_stream(ctx, drv, only=case["big"])
        elif case.get("two_targets"):
            c08_big.two_targets_stream(ctx, drv)
        elif case.get("front"):
            c08_front.front_case(ctx, drv, case, 0)
        elif "unpicklable_at" in case:
            run_natural_failure(ctx, drv, case["recipe"], case["store"], case["pre"], case.get("idx", case["unpicklable_at"]), case.get("bad_kind"))
        else:
            run_config(ctx, drv, case["recipe"], case.get("old_recipe", ["obj", "SB", []]), case["store"], case["mode"], case["pre"],
                       case.get("idx", 0), case.get("call", "exact"), case.get("stem", "from-idx") if "stem" in case else "from-idx",
                       faults=case.get("faults", "all"))
    finally:
        drv.close()
    return True
