"""C13 — growth round 5 streams (imported by c13.py):

* mhist  — call histories on the MODULE: persistent arrays / tensors / pre-computed FFTs that a caller keeps and re-uses,
           valid calls of both estimators (all option combinations), calls that are REJECTED or raise part-way (bad argument
           kinds, unusable dtypes, shape mismatch, options of the wrong type), in-place updates of the caller's own arrays
           between calls; every valid call is compared with the same call on a FRESHLY LOADED copy of imaging_utils.py given
           fresh clones of the inputs, every input and every previously returned value is bit-compared after every call, and
           the property predicate (applied translation / swap negation) is evaluated on every valid call;
* forms  — (container x dtype x memory layout) classes of the image arguments with the logical value unchanged;
* degen  — degenerate shapes: an axis of length 1 or 2 (single-row / single-column / 2x2 / 1x1 images);
* stages — internal stages of one estimator call (coarse position handed to the upsampling kernel, patch argmax) against
           the Lean model, and align_images_fourier_torch as an entry point of its own.
"""
import importlib.util

import numpy as np


def _B():
    from props import c13
    return c13


_fresh_n = [0]


def fresh_iu():
    """a freshly loaded copy of the imaging_utils.py under test: same source file, new module object, so no module-level
    state (memo, cache, buffer) of the copy the history ran on can be seen by it"""
    iu = _B()._iu()
    _fresh_n[0] += 1
    spec = importlib.util.spec_from_file_location(f"_c13_fresh_imaging_utils_{_fresh_n[0]}", iu.__file__)
    mod = importlib.util.module_from_spec(spec)
    spec.loader.exec_module(mod)
    return mod


def _exc_name(e):
    return type(e).__name__


# ---------------------------------------------------------------------------------------
# mhist: histories on the module

T_REJECT = ["numpy-im", "half-im", "bf16-im", "numpy-ref", "shape", "none-im", "up-none", "3d", "list-im"]
N_REJECT = ["shape", "gpu", "ms-str", "1d", "up-none", "none-im", "up-str"]


class _Slot:
    """what a caller keeps for one image pair: reference X, image Y = roll(X, t), their torch tensors (per dtype) and their
    pre-computed FFTs — all persistent objects that are passed again and again"""

    def __init__(self, img, t):
        import torch
        self.torch = torch
        self.t = [int(t[0]), int(t[1])]
        self.X = np.array(img, dtype=float)
        self.Y = np.roll(self.X, self.t, (0, 1))
        self.FX = np.fft.fft2(self.X)
        self.FY = np.fft.fft2(self.Y)
        self.T = {}
        self.snap()

    def tensors(self, dt):
        torch = self.torch
        if dt not in self.T:
            d = torch.float64 if dt == "float64" else torch.float32
            self.T[dt] = (torch.tensor(self.X, dtype=d), torch.tensor(self.Y, dtype=d))
            self.Tsnap[dt] = tuple(x.clone() for x in self.T[dt])
        return self.T[dt]

    def snap(self):
        self.snaps = {k: getattr(self, k).copy() for k in ("X", "Y", "FX", "FY")}
        self.Tsnap = {dt: tuple(x.clone() for x in pair) for dt, pair in self.T.items()}

    def roll_in_place(self, s):
        """the CALLER updates its own arrays in place (same objects, new content)"""
        self.X[...] = np.roll(self.X, s, (0, 1))
        self.Y[...] = np.roll(self.Y, s, (0, 1))
        self.FX[...] = np.fft.fft2(self.X)
        self.FY[...] = np.fft.fft2(self.Y)
        for dt, (tx, ty) in self.T.items():
            tx.copy_(self.torch.tensor(self.X, dtype=tx.dtype))
            ty.copy_(self.torch.tensor(self.Y, dtype=ty.dtype))
        self.snap()

    def changed(self):
        for k, v in self.snaps.items():
            a = getattr(self, k)
            if a.dtype != v.dtype or a.shape != v.shape or a.tobytes() != v.tobytes():
                return k, float(np.max(np.abs(a - v))) if a.shape == v.shape else float("inf")
        for dt, pair in self.T.items():
            for name, a, v in zip(("TX", "TY"), pair, self.Tsnap[dt]):
                if a.dtype != v.dtype or a.shape != v.shape or not self.torch.equal(a, v):
                    return f"{name}[{dt}]", float((a - v).abs().max()) if a.shape == v.shape else float("inf")
        return None


def _np_call(iu, a, b, op):
    kw = dict(upsample_factor=op["up"], max_shift=op.get("ms"), fft_input=op["fin"], return_shifted_image=op["ret"], fft_output=op["fout"])
    with np.errstate(all="ignore"):
        r = iu.cross_correlation_shift(a, b, **kw)
    if op["ret"]:
        return np.asarray(r[0], dtype=float), r[1]
    return np.asarray(r, dtype=float), None


def _t_call(iu, a, b, op):
    if op.get("entry") == "align":
        torch = __import__("torch")
        M, N = a.shape
        xy = iu.align_images_fourier_torch(torch.fft.fft2(a), torch.fft.fft2(b), op["up"])
        xy = np.asarray(xy.detach().cpu().numpy(), dtype=float)
        return np.array([((xy[0] + M / 2) % M) - M / 2, ((xy[1] + N / 2) % N) - N / 2])
    r = iu.cross_correlation_shift_torch(a, b, upsample_factor=op["up"])
    return np.asarray(r.detach().cpu().numpy(), dtype=float)


def _t_reject(iu, slot, other, op):
    torch = __import__("torch")
    tx, ty = slot.tensors(op["dt"])
    how = op["how"]
    if how == "numpy-im":
        return iu.cross_correlation_shift_torch(tx, slot.Y, op["up"])
    if how == "list-im":
        return iu.cross_correlation_shift_torch(tx, slot.Y.tolist(), op["up"])
    if how == "half-im":
        return iu.cross_correlation_shift_torch(tx, ty.to(torch.float16), op["up"])
    if how == "bf16-im":
        return iu.cross_correlation_shift_torch(tx, ty.to(torch.bfloat16), op["up"])
    if how == "numpy-ref":
        return iu.cross_correlation_shift_torch(slot.X, ty, op["up"])
    if how == "shape":
        return iu.cross_correlation_shift_torch(tx, torch.zeros((tx.shape[0] + 2, tx.shape[1] + 3), dtype=tx.dtype), op["up"])
    if how == "none-im":
        return iu.cross_correlation_shift_torch(tx, None, op["up"])
    if how == "up-none":
        return iu.cross_correlation_shift_torch(tx, ty, None)
    if how == "3d":
        return iu.cross_correlation_shift_torch(tx[None], ty[None], op["up"])
    raise ValueError(how)


def _n_reject(iu, slot, op):
    a, b = (slot.FX, slot.FY) if op["fin"] else (slot.X, slot.Y)
    how = op["how"]
    kw = dict(upsample_factor=op["up"], fft_input=op["fin"], return_shifted_image=op["ret"], fft_output=op["fout"])
    with np.errstate(all="ignore"):
        if how == "shape":
            return iu.cross_correlation_shift(a, np.zeros((a.shape[0] + 2, a.shape[1] + 3), dtype=b.dtype), **kw)
        if how == "gpu":
            return iu.cross_correlation_shift(a, b, device="gpu", **kw)
        if how == "ms-str":
            return iu.cross_correlation_shift(a, b, max_shift="3", **kw)
        if how == "1d":
            return iu.cross_correlation_shift(a, b[0], **kw)
        if how == "up-none":
            kw["upsample_factor"] = None
            return iu.cross_correlation_shift(a, b, **kw)
        if how == "up-str":
            kw["upsample_factor"] = "4"
            return iu.cross_correlation_shift(a, b, **kw)
        if how == "none-im":
            return iu.cross_correlation_shift(a, None, **kw)
    raise ValueError(how)


def case_mhist(ctx, case):
    import torch
    B = _B()
    iu = B._iu()
    imgs = case["imgs"]
    shapes = [(len(im), len(im[0])) for im in imgs]
    for im in imgs:
        x = np.array(im, dtype=float)
        if not B.unique_peak(B.cc_int(x, x))[0]:
            ctx.dist["mhist:rejected(non-unique autocorrelation peak)"] += 1
            return
    ctx.count()
    slots = {}

    def slot(i):
        if i not in slots:
            slots[i] = _Slot(imgs[i], case["ts"][i])   # created on first use: a NEW object the module has never seen
        return slots[i]

    kept = []     # (description, clone at return time, the returned object itself)
    n_valid = n_rej = 0
    sig = []
    for step, op in enumerate(case["ops"]):
        k = op["k"]
        tag = f"op #{step} {k}"
        if k == "mut":
            slot(op["s"]).roll_in_place(op["by"])
            slots[op["s"]].t = slots[op["s"]].t      # the relative translation of the pair is unchanged
            sig.append("mut")
            continue
        s = slot(op["s"])
        M, N = s.X.shape
        expected_t = None
        if k in ("t_rej", "n_rej"):
            try:
                (_t_reject(iu, s, None, op) if k == "t_rej" else _n_reject(iu, s, op))
                ctx.dist[f"mhist:{k}:{op['how']}:did-not-raise"] += 1
            except Exception as e:   # noqa: BLE001 — the point of the op
                n_rej += 1
                ctx.dist[f"mhist:{k}:{op['how']}:{_exc_name(e)}"] += 1
            sig.append(k + ":" + op["how"])
        elif k == "t":
            tx, ty = s.tensors(op["dt"])
            o = slot(op["o"]) if op.get("o") is not None and shapes[op["o"]] == shapes[op["s"]] else None
            if o is not None:
                a, b = tx, o.tensors(op["dt"])[1]
            else:
                a, b = (ty, tx) if op["swap"] else (tx, ty)
                expected_t = [-s.t[0], -s.t[1]] if op["swap"] else s.t
            ref = _t_call(fresh_iu(), a.clone(), b.clone(), op)
            try:
                obs = _t_call(iu, a, b, op)
            except Exception as e:   # noqa: BLE001 — a call a freshly loaded module accepts is rejected after this history
                ctx.pred_fail("torch-valid-call-raises-after-history",
                              f"cross_correlation_shift_torch ({tag}) raises {_exc_name(e)} after this call history; a freshly loaded module returns a shift "
                              "for the same images", dict(case, failing_op=step), observed=f"{_exc_name(e)}: {str(e)[:160]}", required=ref.tolist())
                break
            n_valid += 1
            tol = B.TOL64 if (op["up"] <= 2 and op["dt"] == "float64") else B.TOL32
            d = float(np.max(np.abs(obs - ref))) if np.all(np.isfinite(obs)) else float("inf")
            ctx.stat_max("mhist:torch history-vs-fresh-module", d)
            if d > 1e-12:
                # a broken tie by itself (the result may still be right); the property predicates below supply the failing input
                ctx.disagree("mhist-torch-vs-fresh-module", dict(case, failing_op=step), {"fresh module": ref.tolist()}, {"after history": obs.tolist()},
                             note=f"cross_correlation_shift_torch ({tag}) returns another shift after this call history than a freshly loaded module does for the same images")
                ok_fresh = np.all(np.isfinite(ref))
                if expected_t is None and ok_fresh and o is not None:
                    # no applied translation is known for a cross pair: the swapped call on fresh clones gives the requirement (swap negation)
                    neg = _t_call(fresh_iu(), b.clone(), a.clone(), op)
                    B.pred_swap(ctx, dict(case, failing_op=step), "torch-mhist", obs, neg, M, N, op["up"], 1.0 / max(op["up"], 1) + 1e-9 if op["up"] > 2 else B.TOL64)
            if expected_t is not None:
                B.pred_integer_shift(ctx, dict(case, failing_op=step), "torch-mhist", obs, M, N, expected_t, op["up"], tol)
            kept.append((tag, obs.copy(), obs))
            sig.append(f"t:{op['dt'][-2:]}:{'x' if o is not None else ('s' if op['swap'] else 'd')}:{op.get('entry', 'top')}")
        elif k == "n":
            o = slot(op["o"]) if op.get("o") is not None and shapes[op["o"]] == shapes[op["s"]] else None
            ax, ay = (s.FX, s.FY) if op["fin"] else (s.X, s.Y)
            if o is not None:
                a, b = ax, (o.FY if op["fin"] else o.Y)
            else:
                a, b = (ay, ax) if op["swap"] else (ax, ay)
                expected_t = [-s.t[0], -s.t[1]] if op["swap"] else s.t
            ref, rimg = _np_call(fresh_iu(), a.copy(), b.copy(), op)
            try:
                obs, img = _np_call(iu, a, b, op)
            except Exception as e:   # noqa: BLE001
                ctx.pred_fail("np-valid-call-raises-after-history",
                              f"cross_correlation_shift ({tag}) raises {_exc_name(e)} after this call history; a freshly loaded module returns a shift "
                              "for the same arrays", dict(case, failing_op=step), observed=f"{_exc_name(e)}: {str(e)[:160]}", required=ref.tolist())
                break
            n_valid += 1
            d = float(np.max(np.abs(obs - ref))) if np.all(np.isfinite(obs)) else float("inf")
            ctx.stat_max("mhist:np history-vs-fresh-module", d)
            if d > 1e-12:
                ctx.disagree("mhist-np-vs-fresh-module", dict(case, failing_op=step), {"fresh module": ref.tolist()}, {"after history": obs.tolist()},
                             note=f"cross_correlation_shift ({tag}) returns another shift after this call history than a freshly loaded module does for the same arrays")
            if img is not None and rimg is not None:
                di = float(np.max(np.abs(np.asarray(img) - np.asarray(rimg)))) if np.shape(img) == np.shape(rimg) else float("inf")
                if not di <= 1e-9 * max(1.0, float(np.max(np.abs(rimg)))):
                    ctx.disagree("mhist-np-image-vs-fresh-module", dict(case, failing_op=step), {"fresh module": "image"}, {"after history": "image", "max diff": di},
                                 note=f"aligned image returned by cross_correlation_shift ({tag}) differs from the one a freshly loaded module returns")
            ms = op.get("ms")
            if expected_t is not None:
                ct = (B.centred(-expected_t[0], M), B.centred(-expected_t[1], N))
                if ms is None or ct[0] ** 2 + ct[1] ** 2 < ms ** 2:
                    B.pred_integer_shift(ctx, dict(case, failing_op=step), "np-mhist", obs, M, N, expected_t, op["up"], B.TOL64)
                    if img is not None and not op["swap"]:
                        target = s.FX if op["fout"] else s.X
                        okA, dA = B.close(np.abs(np.asarray(img) - target), np.zeros_like(s.X), 1e-7, scale=max(1.0, float(np.max(np.abs(target)))))
                        if not okA:
                            ctx.pred_fail("np-mhist-aligned-image", f"aligned image ({tag}) does not reproduce the reference", dict(case, failing_op=step),
                                          observed=float(dA), required="== reference")
            kept.append((tag, obs.copy(), obs))
            if img is not None:
                kept.append((tag + " image", np.array(img, copy=True), img))
            sig.append(f"n:{int(op['fin'])}{int(op['ret'])}{int(op['fout'])}:{'x' if o is not None else ('s' if op['swap'] else 'd')}")
        else:
            raise ValueError(k)
        # ---- after EVERY call, accepted or rejected: the caller's objects and everything returned so far are untouched
        for i, sl in slots.items():
            ch = sl.changed()
            if ch is not None:
                fam = "torch" if ch[0].startswith("T") else ("np-fft" if ch[0].startswith("F") else "np-real")
                ctx.pred_fail(f"{fam}-input-modified-in-history",
                              f"the estimator modified the caller's {ch[0]} of image pair {i} in place ({tag})", dict(case, failing_op=step),
                              observed={"max_change": ch[1]}, required="inputs bit-identical after every call (accepted or rejected)")
                sl.snap()
        for (ktag, clone, obj) in kept:
            if np.asarray(obj).tobytes() != np.asarray(clone).tobytes():
                ctx.pred_fail("returned-value-changed-by-later-call", f"the value returned by {ktag} was changed by {tag}", dict(case, failing_op=step),
                              observed="changed", required="results of earlier calls stay what they were")
                kept[:] = [(a_, np.array(c_, copy=True), c_) for (a_, _, c_) in kept]
                break
    ctx.dist[f"mhist:valid calls={min(n_valid, 6)}{'+' if n_valid > 6 else ''}"] += 1
    ctx.dist[f"mhist:rejected calls={n_rej}"] += 1
    ctx.mark(("mhist", tuple(sig)))
    ctx.sample({k: case[k] for k in case if k != "imgs"}, limit=10)


def gen_mhist(rng):
    B = _B()
    M, N = B.gen_shape(rng, 4, 10)
    nimg = rng.randint(2, 3)
    imgs, ts = [], []
    for i in range(nimg):
        if i == nimg - 1 and rng.chance(0.3):
            M2, N2 = B.gen_shape(rng, 4, 10)     # an image pair of another shape in the same history
        else:
            M2, N2 = M, N
        imgs.append(B.gen_int_image(rng, M2, N2))
        ts.append([rng.randint(0, M2 - 1), rng.randint(0, N2 - 1)])
    family = rng.weighted([("torch", 4), ("np", 4), ("mixed", 2)])
    ops = []

    def t_valid(s):
        return {"k": "t", "s": s, "up": rng.choice([1, 2, 3, 4, 8]), "dt": rng.choice(["float64", "float64", "float32"]),
                "swap": rng.chance(0.3), "o": (rng.below(nimg) if rng.chance(0.15) else None),
                "entry": "align" if rng.chance(0.15) else "top"}

    def n_valid(s):
        ret = rng.chance(0.6)
        return {"k": "n", "s": s, "up": rng.choice([1, 1, 2, 3, 4, 8]), "fin": rng.chance(0.6), "ret": ret, "fout": ret and rng.chance(0.5),
                "swap": rng.chance(0.3), "ms": rng.choice([None, None, 32, 6]), "o": (rng.below(nimg) if rng.chance(0.15) else None)}

    def t_rej(s):
        return {"k": "t_rej", "s": s, "how": rng.choice(T_REJECT), "up": rng.choice([2, 4]), "dt": rng.choice(["float64", "float32"])}

    def n_rej(s):
        ret = rng.chance(0.6)
        return {"k": "n_rej", "s": s, "how": rng.choice(N_REJECT), "up": rng.choice([1, 4]), "fin": rng.chance(0.6), "ret": ret, "fout": ret and rng.chance(0.5)}

    def fam():
        return family if family != "mixed" else rng.choice(["torch", "np"])

    # a first successful call on pair 0, then a mixture in which rejected calls INTRODUCE a pair the module has not seen yet
    ops.append(t_valid(0) if fam() == "torch" else n_valid(0))
    for _ in range(rng.randint(4, 8)):
        kind = rng.weighted([("valid", 5), ("rej", 3), ("mut", 2)])
        s = rng.below(nimg)
        f = fam()
        if kind == "valid":
            ops.append(t_valid(s) if f == "torch" else n_valid(s))
        elif kind == "rej":
            ops.append(t_rej(s) if f == "torch" else n_rej(s))
            if rng.chance(0.7):      # ... and the caller carries on with valid calls on the SAME objects
                v = t_valid(s) if f == "torch" else n_valid(s)
                if f == "torch":
                    v["dt"] = ops[-1]["dt"]
                    v["swap"] = False
                    v["o"] = None
                ops.append(v)
        else:
            ops.append({"k": "mut", "s": s, "by": [rng.randint(1, 3), rng.randint(0, 3)]})
            if rng.chance(0.7):      # ... and reads the result for the SAME (updated) objects
                v = t_valid(s) if f == "torch" else n_valid(s)
                v["o"] = None
                if f == "np" and rng.chance(0.6):
                    v["fin"] = False
                ops.append(v)
    return {"stream": "mhist", "imgs": imgs, "ts": ts, "ops": ops}


def fixed_mhist(rng):
    """a FIXED block of histories (structure independent of the seed, only the pixel values are drawn): for every kind of
    rejected call x family x dtype / input space: valid call on pair 0 -> rejected call that INTRODUCES pair 1 (objects the module
    has never seen) -> valid calls on the same pair-1 objects (direct, swapped) -> rejected call on pair 0 -> valid call on pair 0;
    and for every family: valid -> caller updates its arrays in place -> valid on the same objects"""
    B = _B()
    out = []

    def imgs(r):
        M, N = B.gen_shape(r, 4, 9)

        def one():
            for _ in range(50):      # redraw until the autocorrelation peak is unique, so that no fixed history is ever dropped
                g = B.gen_int_image(r, M, N)
                x = np.array(g, dtype=float)
                if B.unique_peak(B.cc_int(x, x))[0]:
                    return g
            return g
        return ([one(), one()], [[r.randint(1, M - 1), r.randint(0, N - 1)], [r.randint(0, M - 1), r.randint(1, N - 1)]])

    n = 0
    for how in T_REJECT:
        for dt in ("float64", "float32"):
            for up in ((2, 4) if dt == "float64" else (4,)):
                r = rng.fork(n)
                n += 1
                im, ts = imgs(r)

                def tv(s_, swap=False, entry="top"):
                    return {"k": "t", "s": s_, "up": up, "dt": dt, "swap": swap, "o": None, "entry": entry}
                ops = [tv(0), {"k": "t_rej", "s": 1, "how": how, "up": up, "dt": dt}, tv(1), tv(1, True), tv(0),
                       {"k": "t_rej", "s": 0, "how": how, "up": up, "dt": dt}, tv(0), tv(1, False, "align")]
                out.append({"stream": "mhist", "imgs": im, "ts": ts, "ops": ops, "fixed": f"torch:{how}:{dt}:{up}"})
    for how in N_REJECT:
        for fin in (False, True):
            for ret, fout in ((True, False), (True, True)):
                r = rng.fork(n)
                n += 1
                im, ts = imgs(r)
                up = 4 if (n % 2) else 1

                def nv(s_, swap=False, ret_=ret, fout_=fout, ms=None):
                    return {"k": "n", "s": s_, "up": up, "fin": fin, "ret": ret_, "fout": fout_, "swap": swap, "ms": ms, "o": None}
                ops = [nv(0), {"k": "n_rej", "s": 1, "how": how, "up": up, "fin": fin, "ret": ret, "fout": fout}, nv(1), nv(1, True), nv(0, ms=32),
                       {"k": "n_rej", "s": 0, "how": how, "up": up, "fin": fin, "ret": ret, "fout": fout}, nv(0, ms=6), nv(0, ms=32), nv(1, False, False, False)]
                out.append({"stream": "mhist", "imgs": im, "ts": ts, "ops": ops, "fixed": f"np:{how}:fin={fin}:fout={fout}"})
    for fam in ("torch64", "torch32", "np-real", "np-fft"):
        for up in (1, 4):
            r = rng.fork(n)
            n += 1
            im, ts = imgs(r)
            if fam.startswith("torch"):
                v = {"k": "t", "s": 0, "up": max(up, 2), "dt": "float64" if fam == "torch64" else "float32", "swap": False, "o": None, "entry": "top"}
            else:
                v = {"k": "n", "s": 0, "up": up, "fin": fam == "np-fft", "ret": True, "fout": False, "swap": False, "ms": None, "o": None}
            ops = [dict(v), {"k": "mut", "s": 0, "by": [1, 2]}, dict(v), dict(v, swap=True), {"k": "mut", "s": 0, "by": [2, 1]}, dict(v)]
            out.append({"stream": "mhist", "imgs": im, "ts": ts, "ops": ops, "fixed": f"mut:{fam}:{up}"})
    return out


# ---------------------------------------------------------------------------------------
# forms: container x dtype x memory layout of the image arguments

NP_FORMS = ["list", "int64", "int32", "uint16", "float32", "fortran", "transposed-view", "strided", "negstride", "readonly", "big-endian", "mixed"]
NP_FFT_FORMS = ["fortran", "complex64", "strided", "readonly", "negstride"]
T_FORMS = ["float32", "int64", "transposed-view", "strided", "requires-grad", "mixed-dtype", "negflip"]


def np_form(a, form, which=0):
    a = np.asarray(a)
    if form == "list":
        return a.tolist()
    if form in ("int64", "int32", "uint16", "float32", "complex64"):
        return a.astype(form)
    if form == "fortran":
        return np.asfortranarray(a)
    if form == "transposed-view":
        return np.ascontiguousarray(a.T).T
    if form == "strided":
        big = np.zeros((a.shape[0] * 2 + 1, a.shape[1] * 3 + 2), dtype=a.dtype)
        big[1::2, 2::3] = a
        return big[1::2, 2::3]
    if form == "negstride":
        return np.ascontiguousarray(a[::-1, ::-1])[::-1, ::-1]
    if form == "readonly":
        b = a.copy()
        b.flags.writeable = False
        return b
    if form == "big-endian":
        return a.astype(a.dtype.newbyteorder(">"))
    if form == "mixed":
        return np.asfortranarray(a).astype(np.float32) if which == 0 else a.astype(np.int64)
    raise ValueError(form)


def t_form(a, form, which=0):
    import torch
    t = torch.tensor(np.asarray(a, dtype=float))
    if form == "float32":
        return t.float()
    if form == "int64":
        return t.long()
    if form == "transposed-view":
        return t.t().contiguous().t()
    if form == "strided":
        big = torch.zeros((t.shape[0] * 2 + 1, t.shape[1] * 3 + 2), dtype=t.dtype)
        big[1::2, 2::3] = t
        return big[1::2, 2::3]
    if form == "requires-grad":
        return t.clone().requires_grad_(True)
    if form == "mixed-dtype":
        return t.float() if which == 0 else t
    if form == "negflip":
        return torch.flip(torch.flip(t, (0, 1)).contiguous(), (0, 1))
    raise ValueError(form)


def case_forms(ctx, case):
    B = _B()
    iu = B._iu()
    img = case["img"]
    M, N = len(img), len(img[0])
    ref = np.array(img, dtype=float)
    t = case["t"]
    im = np.roll(ref, (t[0], t[1]), (0, 1))
    if not B.unique_peak(B.cc_int(ref, ref))[0]:
        ctx.dist["forms:rejected(non-unique autocorrelation peak)"] += 1
        return
    ctx.count()
    up, form, variant = case["up"], case["form"], case["variant"]
    ctx.dist[f"forms:{variant}:{form}"] += 1
    f32 = form in ("float32", "complex64", "mixed", "int64", "mixed-dtype") if variant == "torch" else form in ("float32", "complex64", "mixed")
    if variant == "np":
        fin = case["fin"]
        a0, b0 = (np.fft.fft2(ref), np.fft.fft2(im)) if fin else (ref, im)
        a, b = np_form(a0, form, 0), np_form(b0, form, 1)
        keep = [np.array(x, copy=True) if not isinstance(x, list) else [r[:] for r in x] for x in (a, b)]
        kw = dict(upsample_factor=up, fft_input=fin, return_shifted_image=case["ret"], fft_output=case["fout"])
        with np.errstate(all="ignore"):
            r = iu.cross_correlation_shift(a, b, **kw)
            r0 = iu.cross_correlation_shift(np.array(a0), np.array(b0), **kw)
        obs = np.asarray(r[0] if case["ret"] else r, dtype=float)
        plain = np.asarray(r0[0] if case["ret"] else r0, dtype=float)
        for x, k0, nm in ((a, keep[0], "first"), (b, keep[1], "second")):
            same = (x == k0) if isinstance(x, list) else (np.asarray(x).tobytes() == np.asarray(k0).tobytes() and np.array_equal(x, k0))
            if not same:
                ctx.pred_fail(f"np-input-modified-{'fft' if fin else 'real'}", f"cross_correlation_shift modified its {nm} input ({form}) in place", case,
                              observed="changed", required="inputs bit-identical after the call")
        tol = B.TOL32 if f32 else B.TOL64
        B.pred_integer_shift(ctx, case, "np-form", obs, M, N, t, up, tol)
        d = max(B.mod_dist(obs[0], plain[0], M), B.mod_dist(obs[1], plain[1], N)) if np.all(np.isfinite(obs)) else float("inf")
        ctx.stat_max(f"forms:np {'float32-class' if f32 else 'layout-class'} vs plain float64", d)
        if d > tol:
            ctx.pred_fail("np-form-differs-from-plain", f"cross_correlation_shift on {form} arguments differs from the same images as C-contiguous float64", case,
                          observed=obs.tolist(), required=plain.tolist())
        if case["ret"]:
            target = np.fft.fft2(ref) if case["fout"] else ref
            okA, dA = B.close(np.abs(np.asarray(r[1]) - target), np.zeros_like(ref), 5e-5 if f32 else 1e-7, scale=max(1.0, float(np.max(np.abs(target)))))
            ctx.stat_max(f"forms:np aligned image err [{'float32-class' if f32 else 'layout-class'}]", dA)
            if not okA:
                ctx.pred_fail("np-form-aligned-image", f"aligned image for {form} arguments does not reproduce the reference", case, observed=float(dA), required="== reference")
    else:
        import torch
        a, b = t_form(ref, form, 0), t_form(im, form, 1)
        ka, kb = a.detach().clone(), b.detach().clone()
        obs = np.asarray(iu.cross_correlation_shift_torch(a, b, upsample_factor=up).detach().cpu().numpy(), dtype=float)
        plain = B.impl_torch(ref, im, up=up)
        if not (torch.equal(a.detach(), ka) and torch.equal(b.detach(), kb)):
            ctx.pred_fail("torch-input-modified", f"cross_correlation_shift_torch modified an input tensor ({form}) in place", case, observed="changed",
                          required="inputs bit-identical after the call")
        tol = B.TOL32 if (f32 or up > 2) else B.TOL64
        B.pred_integer_shift(ctx, case, "torch-form", obs, M, N, t, up, tol)
        d = max(B.mod_dist(obs[0], plain[0], M), B.mod_dist(obs[1], plain[1], N)) if np.all(np.isfinite(obs)) else float("inf")
        ctx.stat_max(f"forms:torch {'float32-class' if f32 else 'layout-class'} vs plain float64", d)
        if d > tol:
            ctx.pred_fail("torch-form-differs-from-plain", f"cross_correlation_shift_torch on {form} arguments differs from the same images as contiguous float64", case,
                          observed=obs.tolist(), required=plain.tolist())
    ctx.mark(("forms", variant, form, B.up_key(up), case.get("fin", False), case.get("ret", False)))
    ctx.sample({k: case[k] for k in case if k != "img"}, limit=12)


def gen_forms(rng, i):
    B = _B()
    M, N = B.gen_shape(rng, 3, 10)
    variant = "np" if i % 2 == 0 else "torch"
    case = {"stream": "forms", "img": B.gen_int_image(rng, M, N), "t": [rng.randint(0, M - 1), rng.randint(0, N - 1)],
            "up": rng.choice([1, 2, 3, 4, 8]), "variant": variant}
    if variant == "np":
        fin = rng.chance(0.4)
        ret = rng.chance(0.6)
        case.update({"fin": fin, "ret": ret, "fout": ret and rng.chance(0.5), "form": rng.choice(NP_FFT_FORMS if fin else NP_FORMS)})
    else:
        case["form"] = rng.choice(T_FORMS)
    return case


# ---------------------------------------------------------------------------------------
# degen: an axis of length 1 or 2

def case_degen(ctx, drv, case):
    B = _B()
    d = B._drv_mod()
    img = case["img"]
    M, N = len(img), len(img[0])
    ref = np.array(img, dtype=float)
    t = case["t"]
    up = case["up"]
    im = np.roll(ref, (t[0], t[1]), (0, 1))
    if not B.unique_peak(B.cc_int(ref, ref))[0]:
        ctx.dist["degen:rejected(non-unique autocorrelation peak)"] += 1
        return
    ctx.count()
    ctx.dist[f"degen:shape={min(M, 3)}{'+' if M > 3 else ''}x{min(N, 3)}{'+' if N > 3 else ''}"] += 1
    exp = (B.centred(-t[0], M), B.centred(-t[1], N))
    obs, aligned = B.impl_np(ref, im, up=up, ret_img=True)
    tobs = B.impl_torch(ref, im, up=max(up, 1))
    sobs, _ = B.impl_np(im, ref, up=up)

    def axis_check(variant, o, tol):
        for ax, n in ((0, M), (1, N)):
            err = B.mod_dist(o[ax], exp[ax], n) if np.isfinite(o[ax]) else float("inf")
            inrange = np.isfinite(o[ax]) and -n / 2.0 - tol <= o[ax] <= n / 2.0 + tol
            if n == 1:
                # every translation is the identity on an axis of length 1: the applied shift is 0 and 0 has to come back
                err = abs(o[ax]) if np.isfinite(o[ax]) else float("inf")
                key = f"{variant}-axis-of-length-1-{B.up_key(up) if variant == 'np' else ('upsampled' if up > 2 else 'up1')}"
            else:
                key = f"{variant}-degenerate-shape-{'identical' if (t[0] % M == 0 and t[1] % N == 0) else 'integer-shift'}-{B.up_key(up)}"
            ctx.stat_max(f"degen:{variant} err [axis length {'1' if n == 1 else '>=2'}]", err if np.isfinite(err) else 1e9)
            if not (err <= tol and inrange):
                ctx.pred_fail(key, f"estimator does not return the applied integer translation along axis {ax} (length {n}) of a {M}x{N} image", case,
                              observed=[float(o[0]), float(o[1])], required=[exp[0], exp[1]])

    axis_check("np", obs, B.TOL64)
    axis_check("torch", tobs, B.TOL64 if up <= 2 else B.TOL32)
    if aligned is not None and np.all(np.isfinite(obs)):
        okA, dA = B.close(aligned, ref, 1e-7)
        if not okA:
            ctx.pred_fail(f"np-degenerate-shape-aligned-image", "aligned image for an integer-shifted copy does not reproduce the reference", case,
                          observed=float(dA), required="== reference")
    if np.all(np.isfinite(obs)) and np.all(np.isfinite(sobs)) and min(M, N) >= 2:
        B.pred_swap(ctx, case, "np-degenerate-shape", obs, sobs, M, N, up, B.TOL64)
    # ---- float64 model on the same pair
    for variant, o, tol in (("np", obs, B.TOL64), ("torch", tobs, B.TOL32 if up > 2 else B.TOL64)):
        m = B.ask(drv, {"op": "full", "variant": variant, "up": max(up, 1) if variant == "torch" else up, "ref": B.fbits(ref), "im": B.fbits(im), "max_shift": None})
        ms = [d.b2f(x) for x in m["shift"]]
        pg = d.b2f(m["pgap"]) / max(d.b2f(m["pscale"]), 1e-300) if "pgap" in m else 1.0
        if pg < 1e-10 or min(M, N) == 1 and "pgap" in m:
            ctx.dist[f"degen:{variant} model comparison skipped (patch constant along an axis of length 1: argmax decided by rounding)"] += 1
            continue
        if not (np.all(np.isfinite(o)) and np.all(np.isfinite(ms))):
            same = [bool(np.isfinite(x)) for x in o] == [bool(np.isfinite(x)) for x in ms]
            if not same:
                ctx.disagree(f"degen-{variant}", case, {"shift": [str(x) for x in ms]}, {"shift": [str(float(x)) for x in o]}, note="finite/non-finite pattern differs")
            continue
        ok, dist = B.cmp_shift(o, ms, M, N, tol)
        ctx.stat_max(f"degen:{variant} model-vs-impl shift", dist)
        if not ok:
            ctx.disagree(f"degen-{variant}", case, {"shift": ms}, {"shift": [float(o[0]), float(o[1])]}, note="degenerate shape, Float model vs implementation")
    ctx.mark(("degen", M if M < 3 else 3, N if N < 3 else 3, B.up_key(up), B.shift_class(t, M, N)))
    ctx.sample(case, limit=14)


def gen_degen(rng):
    B = _B()
    n = rng.randint(3, 9)
    M, N = rng.weighted([((1, n), 3), ((n, 1), 3), ((2, n), 3), ((n, 2), 3), ((2, 2), 1), ((1, 2), 1), ((2, 1), 1), ((1, 1), 1)])
    img = B.gen_int_image(rng, M, N)
    t = [rng.randint(0, M), rng.randint(0, N)] if rng.chance(0.8) else [0, 0]
    return {"stream": "degen", "img": img, "t": t, "up": rng.choice([1, 1, 2, 3, 4, 8])}


# ---------------------------------------------------------------------------------------
# stages: what the estimator hands to its upsampling kernel, and align_images_fourier_torch as its own entry point

def case_stages(ctx, drv, case):
    import torch
    B = _B()
    iu = B._iu()
    d = B._drv_mod()
    img = case["img"]
    M, N = len(img), len(img[0])
    ref = np.array(img, dtype=float)
    t = case["t"]
    up = case["up"]
    ms = case.get("ms")
    im = np.roll(ref, (t[0], t[1]), (0, 1))
    if not B.unique_peak(B.cc_int(ref, ref))[0]:
        return
    ctx.count()
    ctx.dist[f"stages:up={up},max_shift={'none' if ms is None else 'set'}"] += 1
    rec = {}
    orig_np, orig_uc, orig_du = iu.dft_upsample, iu.upsampled_correlation_torch, iu.dftUpsample_torch

    def w_np(F, upf, shift, *a, **k):
        out = orig_np(F, upf, shift, *a, **k)
        rec["np"] = (float(shift[0]), float(shift[1]), np.array(out, copy=True), int(upf))
        return out

    def w_uc(cc, upf, xy, *a, **k):
        rec["uc"] = (float(xy[0]), float(xy[1]))
        return orig_uc(cc, upf, xy, *a, **k)

    def w_du(cc, upf, cen, *a, **k):
        out = orig_du(cc, upf, cen, *a, **k)
        rec["du"] = (float(cen[0]), float(cen[1]), out.detach().numpy().copy())
        return out

    iu.dft_upsample, iu.upsampled_correlation_torch, iu.dftUpsample_torch = w_np, w_uc, w_du
    try:
        with np.errstate(all="ignore"):
            obs = np.asarray(iu.cross_correlation_shift(ref, im, upsample_factor=up, max_shift=ms), dtype=float)
        ta, tb = torch.tensor(ref), torch.tensor(im)
        tobs = iu.cross_correlation_shift_torch(ta, tb, upsample_factor=up).numpy().astype(float)
        xy = iu.align_images_fourier_torch(torch.fft.fft2(ta), torch.fft.fft2(tb), up).numpy().astype(float)
    finally:
        iu.dft_upsample, iu.upsampled_correlation_torch, iu.dftUpsample_torch = orig_np, orig_uc, orig_du
    ct = (B.centred(-t[0], M), B.centred(-t[1], N))
    visible = ms is None or ct[0] ** 2 + ct[1] ** 2 < ms ** 2
    if visible:
        B.pred_integer_shift(ctx, case, "np", obs, M, N, t, up, B.TOL64)
    B.pred_integer_shift(ctx, case, "torch", tobs, M, N, t, up, B.TOL64 if up <= 2 else B.TOL32)
    # align_images_fourier_torch: the un-centred position, congruent to the applied translation
    B.pred_integer_shift(ctx, case, "torch-align-entry", np.array([B.centred(xy[0], M), B.centred(xy[1], N)]), M, N, t, up, B.TOL64 if up <= 2 else B.TOL32)
    # ---- model
    m = B.ask(drv, {"op": "full", "variant": "np", "up": up, "ref": B.fbits(ref), "im": B.fbits(im), "max_shift": None if ms is None else d.f2b(float(ms))})
    gap = d.b2f(m["gap"]) / max(d.b2f(m["scale"]), 1e-300)
    if d.b2f(m["gap"]) == 0.0 and "cmax" in m and d.b2f(m["cmax"]) == 0.0 and ms is not None:
        # the maximum of the search table is the exact 0.0 the mask writes (e.g. max_shift = 0 masks every lag): the tie is exact,
        # the first-maximum rule decides and nothing is left to rounding
        ctx.dist["stages:np peak decided by the first-maximum rule among masked zeros"] += 1
        gap = 1.0
    if "pgap" in m and d.b2f(m["pgap"]) / max(d.b2f(m["pscale"]), 1e-300) < 1e-10:
        gap = 0.0      # the patch (3.2 px wide) wraps around a 3 px axis and holds its maximum twice: argmax decided by rounding
    if gap < 1e-7:
        ctx.dist["stages:np argmax tie (masked table or wrapped patch) skipped"] += 1
    else:
        mshift = [d.b2f(x) for x in m["shift"]]
        ok, dist = B.cmp_shift(obs, mshift, M, N, B.TOL64)
        ctx.stat_max("stages:np model-vs-impl shift (max_shift x upsampling)", dist)
        if not ok:
            ctx.disagree("stages-np", case, {"shift": mshift}, {"shift": obs.tolist()}, note=f"cross_correlation_shift(max_shift={ms}, upsample_factor={up}) vs model")
        if "np" in rec and up > 1:
            x0, y0, patch, upf = rec["np"]
            ctx.dist["stages:np coarse position seen"] += 1
            # positions are compared modulo the cell: `(x0 + dx) % M` of a dx = -1e-17 is M itself in binary64, the same lag as 0
            okc = B.mod_dist(x0, d.b2f(m["x"]), M) <= B.TOL64 * max(1, M) and B.mod_dist(y0, d.b2f(m["y"]), N) <= B.TOL64 * max(1, N)
            if not okc or upf != up:
                ctx.disagree("stages-np-coarse", case, {"x": d.b2f(m["x"]), "y": d.b2f(m["y"]), "up": up}, {"x": x0, "y": y0, "up": upf},
                             note="coarse position / factor handed to dft_upsample vs coarseNp")
            pk = np.unravel_index(int(np.argmax(patch)), patch.shape)
            if "ppeak" in m and d.b2f(m["pgap"]) / max(d.b2f(m["pscale"]), 1e-300) > 1e-10 and [int(pk[0]), int(pk[1])] != list(m["ppeak"]):
                ctx.disagree("stages-np-patch-peak", case, {"ppeak": m["ppeak"]}, {"ppeak": [int(pk[0]), int(pk[1])]}, note="argmax of the upsampled patch")
        elif up > 1:
            ctx.dist["stages:np kernel hook not reached (kernel inlined or renamed?)"] += 1
    m = B.ask(drv, {"op": "full", "variant": "torch", "up": up, "ref": B.fbits(ref), "im": B.fbits(im), "max_shift": None})
    tie = min(abs((d.b2f(m["prex"]) % 1.0) - 0.5), abs((d.b2f(m["prey"]) % 1.0) - 0.5))
    if tie > 1e-6:
        tol = B.TOL32 if up > 2 else B.TOL64
        raw = [d.b2f(x) for x in m["raw"]]
        if not (abs(xy[0] - raw[0]) <= tol * max(1, M) and abs(xy[1] - raw[1]) <= tol * max(1, N)):
            ctx.disagree("stages-torch-align-entry", case, {"xy": raw}, {"xy": xy.tolist()}, note="align_images_fourier_torch (un-centred) vs model")
        if up > 2 and "uc" in rec:
            ctx.dist["stages:torch half-pixel position seen"] += 1
            if not (abs(rec["uc"][0] - d.b2f(m["x"])) <= B.TOL64 * max(1, M) and abs(rec["uc"][1] - d.b2f(m["y"])) <= B.TOL64 * max(1, N)):
                ctx.disagree("stages-torch-coarse", case, {"x": d.b2f(m["x"]), "y": d.b2f(m["y"])}, {"x": rec["uc"][0], "y": rec["uc"][1]},
                             note="half-pixel position handed to upsampled_correlation_torch vs coarseTorch")
            if "du" in rec:
                cen = [d.b2f(x) for x in m["center"]]
                if not (abs(rec["du"][0] - cen[0]) <= 1e-9 * max(1.0, abs(cen[0])) and abs(rec["du"][1] - cen[1]) <= 1e-9 * max(1.0, abs(cen[1]))):
                    ctx.disagree("stages-torch-center", case, {"center": cen}, {"center": list(rec["du"][:2])}, note="upsampleCenter handed to dftUpsample_torch vs centerTorch(snapTorch)")
        elif up > 2:
            ctx.dist["stages:torch kernel hook not reached (kernel inlined or renamed?)"] += 1
    # ---- the entry points of the model called as they are (dispatch on the factor inside Model/RegistrationExt.lean)
    if up > 5:
        ctx.mark(("stages", B.shape_sig(M, N), up, ms is not None, visible))
        ctx.sample(case, limit=16)
        return
    e = B.ask(drv, {"op": "entry", "up": up, "ref": B.fbits(ref), "im": B.fbits(im), "max_shift": None if ms is None else d.f2b(float(ms))})
    if gap >= 1e-7:
        es = [d.b2f(x) for x in e["np"]]
        ok, dist = B.cmp_shift(obs, es, M, N, B.TOL64)
        if not ok:
            ctx.disagree("entry-np", case, {"shift": es}, {"shift": obs.tolist()}, note="cross_correlation_shift vs Registration.shiftNp (dispatch on upsample_factor in the model)")
    if tie > 1e-6:
        tol = B.TOL32 if up > 2 else B.TOL64
        es = [d.b2f(x) for x in e["torch"]]
        ok, dist = B.cmp_shift(tobs, es, M, N, tol)
        if not ok:
            ctx.disagree("entry-torch", case, {"shift": es}, {"shift": tobs.tolist()}, note="cross_correlation_shift_torch vs Registration.shiftTorch")
        ea = [d.b2f(x) for x in e["align"]]
        if not (abs(xy[0] - ea[0]) <= tol * max(1, M) and abs(xy[1] - ea[1]) <= tol * max(1, N)):
            ctx.disagree("entry-align", case, {"xy": ea}, {"xy": xy.tolist()}, note="align_images_fourier_torch vs Registration.alignTorch")
    ctx.mark(("stages", B.shape_sig(M, N), up, ms is not None, visible))
    ctx.sample(case, limit=16)


def gen_stages(rng):
    B = _B()
    M, N = B.gen_shape(rng, 3, 9)
    t = [rng.randint(-M, M), rng.randint(0, N - 1)]
    ms = rng.weighted([(None, 3), ("above", 3), ("on", 2), ("below", 1), ("big", 1), ("zero", 1)])
    if ms == "on":     # a translation whose length is an integer, so that "exactly on the threshold" is exact in binary64
        t = rng.choice([[0, rng.randint(1, N - 1)], [rng.randint(1, M - 1), 0]] + ([[3, 4], [-4, 3]] if min(M, N) >= 9 else []))
    ct = (B.centred(-t[0], M), B.centred(-t[1], N))
    r = float(np.hypot(ct[0], ct[1]))
    if ms == "above":
        ms = r + rng.choice([0.25, 0.5, 1.0, 1e-9 * max(r, 1.0)])
    elif ms == "on":
        ms = r if r > 0 else 1.0        # exactly on the threshold: `>=` masks the true peak
    elif ms == "below":
        ms = max(r - 0.5, 0.5)
    elif ms == "big":
        ms = 32
    elif ms == "zero":
        ms = rng.choice([0, 0.0])     # a legitimate zero: every lag is outside the disc (not the same as "no max_shift")
    return {"stream": "stages", "img": B.gen_int_image(rng, M, N), "t": t, "up": rng.choice([1, 2, 3, 4, 5, 8]), "ms": ms}


def fixed_stages(rng):
    """fixed block: max_shift = 0 / 0.0 (a legitimate zero, not "no max_shift"), a shift exactly on the threshold and just inside it,
    for a non-upsampling and two upsampling factors"""
    B = _B()
    out = []
    n = 0
    for up in (1, 2, 4):
        for ms_kind in ("zero-int", "zero-float", "on", "inside"):
            r = rng.fork(n)
            n += 1
            M, N = B.gen_shape(r, 5, 9)
            for _ in range(50):
                img = B.gen_int_image(r, M, N)
                x = np.array(img, dtype=float)
                if B.unique_peak(B.cc_int(x, x))[0]:
                    break
            t = [0, 2] if n % 2 else [2, 0]
            ms = {"zero-int": 0, "zero-float": 0.0, "on": 2.0, "inside": 2.0 + 2.0 ** -40}[ms_kind]
            out.append({"stream": "stages", "img": img, "t": t, "up": up, "ms": ms, "fixed": ms_kind})
    return out
