"""C07 — torch Radon / filtered back-projection vs scikit-image.

Three-way tie per case: Lean model `radonTorch/filterTorch/iradonTorch` (Float) vs the real
quantem functions; Lean model `radonSk/filterSk/iradonSk` vs the real scikit-image functions
(float64, 1e-9); and the property predicate torch-vs-skimage, batched-vs-single, linearity and
0-degree column sums evaluated on the implementations."""
import math
import os
import warnings

import numpy as np

LEVEL = "proof"
EXTRA_PROPS = ["QuantemModel.Props.C07Ext"]     # growth round 6: angle sets outside ascending [0, 180], accumulation loop
MANIFEST_ENTRY = {
    "category": "proof",
    "text": "Lean 4 theorems (98 = 81 in Props/C07 + 17 in Props/C07Ext, over the reals) about one executable model (generic numeric carrier, run at Float) of BOTH the torch port "
            "(radon_torch, get_fourier_filter_torch, iradon_torch) and the scikit-image reference (radon circle mode, _get_fourier_filter, "
            "iradon linear): the sampling coordinates of the two Radon algorithms coincide for every size >= 2, angle and pixel (grid_sample "
            "normalisation round trip, rotation about N//2), hence every sinogram sample agrees; the six Fourier filters coincide bin by bin "
            "for every size >= 2 (torch vs numpy window formulas, linspace end point); the back-projection interpolants (floor/clamp/blend/"
            "zero-outside vs np.interp left=right=0) coincide for every detector size and every real position, hence iradonTorch = iradonSk "
            "for every sinogram, angle set (given or default), filter and circle flag; the list executables agree (radonTorch img = radonSk of "
            "the disc-masked image); both transforms are linear IN FULL on lists of equal shape (radon; iradon including circle-to-square "
            "padding, the FFT filtering step via DFT linearity, interpolation, mask and scaling) for torch port and reference; the padded FFT "
            "size is the least power of two >= max(64, 2N), filter/row lengths and output shape are as stated; masking is idempotent; the "
            "sinogram of the image rotated by 90 degrees about (N//2, N//2) is the sinogram shifted by 90 degrees (reference: every N; torch: "
            "odd N, with the even-N mask counterexample); a batched call is the per-image call; the 0-degree projection is the column sum "
            "of the disc-masked image. Growth round: the padded FFT size as a specification (unique; equals max(64, 2^ceil(log2(2N))) with "
            "integer and real logarithm for ALL N; exact difference set of the bit-length shortcut), the torch and scikit-image filtering "
            "steps are the same function, and the executable list-DFT step is idft(fft(pad x)*H) over Mathlib's complex numbers; "
            "scikit-image's literal n array (float bounds, dtype=int) and implicit size check modelled separately — equal to the port for "
            "every even size incl. size%4==2, both reject every odd size >= 3, size 1 counterexample; the 180-degree projection exactly "
            "(pure flip for odd N, flip shifted by one bin and one row for even N, both implementations, with the even-size flip "
            "counterexample); geometry: output size (integer sqrt of N^2/2 for circle=False), diagonal padding, centre alignment of the "
            "circle-to-square padding, rotation-axis pixel reads bin D//2, back-projection positions stay inside the detector bounds; explicit "
            "output_size: agreement, linearity and shape for every output size. Inputs are drawn over memory-layout x dtype classes "
            "(contiguous, transposed, batch-permuted, step-sliced, float64; theta float32/float64/strided) with a values-only predicate "
            "(same result as the contiguous float32 call), and iradon's optional output_size is drawn (default, =N, <N, >N, 2N). Growth round 5: images of ANY shape H x W (disc mask on the full grid, crop to the inscribed square with (e+1)//2 = "
            "int(ceil(e/2)), the shared quirk that the mask centre is one pixel off the rotation centre for an even crop with odd excess) "
            "— torch = scikit-image sample by sample, linear, 0-degree column sums, and the square model is the special case; the default "
            "angle set of radon (arange(180)); iradon_torch WITH ITS VALIDATION (theta-length check, optional output_size, the exception "
            "raised inside get_fourier_filter_torch after the padding steps; the padded size is never odd or 0): for every argument "
            "combination the port and scikit-image both raise ValueError or return the same reconstruction; filter size 0 (both reject, "
            "different classes — counterexample replayed); the code's write loops (one preallocated zero tensor, radon_images[:, i, :] = "
            "projection per angle across the batch) refine the per-angle / per-image map, so batching is proved, not by construction; "
            "SESSIONS: for every history of public calls, including calls that raise, outcome i is the outcome of call i alone and equals "
            "the reference's (session_history_independent, session_agree) — tied to the code by a history stream that runs 4-9 calls per "
            "history on a fresh instance of the module (valid calls, calls rejected before/after the padding, FFT and filtering steps, a "
            "caller overwriting returned and passed tensors, repeated calls), checks every valid call against scikit-image, the model and "
            "the same call on another fresh module instance, and reports the whole history as the failing input. Every public function is "
            "also called with its documented defaults omitted and positionally (defaults / argument order), with device= and dtype= "
            "options, integer-dtype angle tensors, one-pixel detectors, output_size 0 and unknown filter spellings. "
            "Growth round 6 (Props/C07Ext, Model/RadonExt2): ANGLE SETS OUTSIDE ASCENDING [0,180] — every sampling point, sinogram sample and "
            "back-projection coordinate has period 360 degrees in the angle (any whole number of turns, negative angles), a half turn mirrors "
            "the detector coordinate, the sinogram of a reversed / permuted / concatenated angle list is the reversed / permuted / concatenated "
            "sinogram, the back-projection does not depend on the order in which (row, angle) pairs are visited (any permutation; list-level: "
            "reversed rows and angles); THE ACCUMULATION LOOP — `recon = zeros; for angle: recon += proj` is the sum the model uses, and the "
            "BATCHED call as the code computes it (one zero tensor [B,out,out], per angle one image per batch item from filtered[:, i, :] added "
            "in place, mask and scaling on the batch) equals the per-sinogram model (whole reconstructions: iradon_angle_period; radon_half_turn: the projection from the opposite side is the projection of the image turned by 180 degrees, not the same projection) and scikit-image's iradon of every item "
            "(iradon_batch_accumulate_refines, iradon_batch_loop_agrees_reference: batching of iradon_torch is now proved, no longer by "
            "construction), run by the driver against the real batched call; THE INTEGERS of the padding steps (iradonGeom: diagonal, "
            "pad_before / after, padded size, pad_y, output size) with their specification for every width (iradon_geometry_spec), compared "
            "EXACTLY with what the real call hands to its FFT for 250 (quick) / 890 (thorough) detector widths up to 520; fixed input blocks "
            "for the round-6 themes (detector lengths that are exact powers of two after circle padding x every non-ramp filter; batches of "
            "5..33 items, 17..257 angles; angle sets with 180, beyond 180/360, negative, descending, unsorted, duplicated on non-symmetric "
            "square and H != W images; one process asking one size under every filter name in every first-use order, identical calls "
            "repeated, same size with other angles / batch / data; TomographyConv._sirt_run_epoch with 2..33 slices, 2-3 epochs, inline "
            "alignment and smoothing kernel). "
            "The pre-fix conventions (reflected rotation, end-point cosine window, extrapolating "
            "interpolant) are kept as legacy definitions with their exact agreement domain and a counterexample each. The model is tied to "
            "the code on every run by Float correspondence with the real torch code and with the real scikit-image (1e-9), and the property "
            "predicate (agreement with scikit-image, batched = single, linearity, 0-degree column sums, forward projection inside "
            "TomographyConv._sirt_run_epoch) is evaluated on the implementations as the failing-input search.",
    "note": "Partial by nature: numerical agreement torch-vs-skimage is measured (square sizes 2..33 and H x W shapes with shorter side "
            "2..24, 1..8 or the default 180 angles, 6 filters, batches 1..3, circle on/off, default and given angles, default and explicit "
            "output sizes incl. 0, detector widths 1..48); what is proved is that the two algorithms as modelled are the same real function "
            "(or raise the same exception class), linear, with the stated symmetries, for every history of calls. Batching of radon_torch is "
            "proved as a refinement of the write loop; batching of iradon_torch is still by construction in the model (per-item map) and "
            "measured on torch. That the real module keeps no state between calls is measured (history stream), the model's state is Unit. "
            "Trusted: grid_sample(align_corners=True, zeros) and skimage warp(order=1, constant) are zero-padded bilinear interpolation; "
            "torch/scipy fft compute the DFT sum; IEEE rounding. Outside the checked domain: N=1 for radon (scikit-image itself fails), "
            "zero projections (A=0), integer-dtype images (torch's grid_sample has no integer kernel: radon_torch raises "
            "NotImplementedError; recorded in the evidence as the outcome of a rejected call, not judged).",
    "technique": "Lean 4 proof (real-number identities, floor/clamp case analysis, sums, loop-to-map and accumulation-loop refinement, permutation "
                 "invariance, sessions with Unit state) + exact integer internal-stage stream + "
                 "three-way model/torch/scikit-image correspondence incl. call histories with rejected calls on fresh module instances",
}
RULE = ("[round 6: + one detector width of the exact geometry stream; fixed-block cases count like random ones] a case is one (function, size or shape, angle set, image-or-sinogram recipe, filter, circle, batch, call form) call evaluated on torch, "
        "scikit-image and the model, or one history of 4-9 such calls (valid and rejected) in one process; distinct non-trivial = distinct "
        "(stream, size/shape, #angles, image kind, filter, circle, batch, layout, call form) with a non-zero input, resp. distinct sequence of "
        "call kinds of a history")
TRUSTED = ["torch.nn.functional.grid_sample(bilinear, zeros, align_corners=True) and skimage.transform.warp(order=1, mode='constant') are "
           "zero-padded bilinear interpolation (shared primitive `bilinear` of the model; validated by both correspondence streams)",
           "torch.fft / scipy.fft compute the defining DFT sum (Core/Dft.lean)",
           "scikit-image's radon/iradon/_get_fourier_filter as installed in /venv are the external oracle of the property",
           "executing radon.py a second time under another module name (importlib) yields an instance with its own, initial module-level "
           "state and otherwise the same behaviour (history stream: start state of every history, history-free reference of every call)"]
ASSUMPTIONS = ["angle sets outside [0,180] / unsorted / with duplicates are drawn in a fixed block only (8 sets x radon square odd/even, H>W, H<W, iradon "
               "circle on/off); batch sizes above 3 and more than 8 angles likewise (5..33 items, 17..257 angles, small images)",
               "TomographyConv._sirt_run_epoch is driven through a stub object (volume_obj with obj/_obj, dataset.tilt_angles, device); only the "
               "returned forward projection is judged (= scikit-image's radon of the volume the epoch started from, every epoch); update "
               "rule, inline alignment and smoothing are executed, not judged",
               "radon: square sizes 2..33 and shapes H x W with shorter side 2..24 and excess 0..9 (scikit-image's radon itself raises for N=1); iradon: "
               "detector widths 1..48, at least one projection; image values are float32-representable (given as float32 or float64 tensors)",
               "histories: 4-9 calls, batch size and number of angles mostly shared inside a history, padded-size family 64 (85 %) or 128; the "
               "rejected calls are drawn from 12 kinds (unknown filter spelling, wrong number of angles, negative / fractional output_size, "
               "wrong ndim, integer image, 2-D / list theta, odd / zero filter size, unknown filter name) and carry no predicate of their own "
               "(their outcome is recorded); state that survives in OTHER modules than radon.py is not reset by the fresh instance (it would "
               "still be seen by the scikit-image comparison, but the replay of such a history depends on the process)",
               "non-square images: the property's quantifier names square sizes, its statement 'every image size'; the port has a dedicated "
               "crop branch that scikit-image's circle mode has too, so agreement is checked there as well (key radon-nonsquare)",
               "angle values are float32-representable so torch (float32) and scikit-image (float64) receive the same angles",
               "iradon: angle sets for which some unmasked pixel's detector position lies within 1e-4 of the detector end are "
               "re-drawn (the interpolant is discontinuous there: value vs 0; float32 and float64 positions may fall on different sides); cases with a re-drawn angle set are counted in the evidence",
               "array inputs are drawn over memory-layout x dtype classes with unchanged logical values (contiguous, transposed, batch-permuted, "
               "step-sliced, float64); torch has no negative strides; python lists / numpy arrays are not accepted by the port (tensor interface) and are not drawn",
               "iradon's optional output_size is drawn (default, =N, <N, >N, 2N); the port has no interpolation / preserve_range arguments",
               "skimage's bilinear uses ceil() for the upper neighbour, the model floor()+1; they differ only at integer coordinates where "
               "the upper weight is 0 (exercised by the 0-degree exact stream)"]
EXPLANATION = ("Theorems in Props/C07.lean are about Model/Radon.lean. Every run executes the model at Float against the real "
               "radon_torch/get_fourier_filter_torch/iradon_torch and against the real scikit-image functions on the same inputs, and "
               "evaluates the property (agreement with scikit-image, batched = single, linearity, 0-degree column sums) on the real code.")

FILTERS = ["ramp", "shepp-logan", "cosine", "hamming", "hann", None]
TOL32 = 5e-5      # model vs torch (float32 path; DESIGN §3 allows 5e-4, measured 3e-6)
TOL64 = 1e-9      # float64 paths (model vs scikit-image)
TOL_PRED = 5e-5   # torch vs scikit-image "to floating-point tolerance" (float32 accumulation over <= 47 samples; measured ~2e-6)
TOL_FILTER = 2e-6  # filters are O(1); float32 fft of 2..256 points (measured ~2e-7)
TOL_BATCH = 2e-6
TOL_LIN = 5e-5
TOL_PROJ0 = 2e-5  # theta = 0: integer image, integer coordinates up to the float32 grid normalisation round trip (measured 1e-7)


# ----------------------------------------------------------------------------------------------
# deterministic input recipes (small JSON cases -> arrays)

def disc(N):
    y, x = np.mgrid[:N, :N]
    return ((x - N // 2) ** 2 + (y - N // 2) ** 2) <= (N // 2) ** 2


IMG_KINDS = ["smooth", "random", "int", "delta", "rim", "disc"]


def make_image(kind, N, seed, masked=True):
    """float32-representable N x N image (returned as float32 array)"""
    from qv.prng import Rng
    r = Rng(seed)
    y, x = np.mgrid[:N, :N].astype(np.float64)
    if kind == "smooth":
        img = np.zeros((N, N))
        for _ in range(3):
            cy, cx = r.uniform(0.25 * N, 0.75 * N), r.uniform(0.25 * N, 0.75 * N)
            s = r.uniform(0.08 * N + 0.5, 0.2 * N + 0.5)
            img += r.uniform(0.5, 2.0) * np.exp(-((x - cx) ** 2 + (y - cy) ** 2) / (2 * s * s))
    elif kind == "random":
        img = np.array([[r.random() for _ in range(N)] for _ in range(N)])
    elif kind == "int":
        img = np.array([[float(r.randint(0, 8)) for _ in range(N)] for _ in range(N)])
    elif kind == "delta":
        img = np.zeros((N, N))
        d = disc(N)
        pts = [(i, j) for i in range(N) for j in range(N) if d[i, j]]
        # prefer pixels on the rim of the disc (where conventions matter)
        rim = [(i, j) for (i, j) in pts if (i - N // 2) ** 2 + (j - N // 2) ** 2 > (N // 2 - 1) ** 2] or pts
        for _ in range(r.randint(1, 4)):
            i, j = r.choice(rim) if r.chance(0.7) else r.choice(pts)
            img[i, j] = float(r.randint(1, 8))
    elif kind == "rim":
        d2 = (x - N // 2) ** 2 + (y - N // 2) ** 2
        img = ((d2 <= (N // 2) ** 2) & (d2 > (N // 2 - 1.5) ** 2)).astype(np.float64) * np.array(
            [[1.0 + r.randint(0, 3) for _ in range(N)] for _ in range(N)])
    else:  # "disc": indicator of the reconstruction circle
        img = disc(N).astype(np.float64)
    img = img.astype(np.float32)
    if masked:
        img = img * disc(N).astype(np.float32)
    return img


SPECIAL_ANGLES = [0.0, 45.0, 90.0, 135.0, 180.0, 30.0, 60.0, 120.0, 179.0, 1.0]


def make_thetas(rng, A):
    out = []
    for _ in range(A):
        if rng.chance(0.3):
            out.append(rng.choice(SPECIAL_ANGLES))
        else:
            out.append(float(np.float32(rng.uniform(0.0, 180.0))))
    return out


def make_sino(kind, A, N, seed, thetas=None):
    """[A, N] float32 sinogram"""
    from qv.prng import Rng
    r = Rng(seed)
    if kind == "random" or (kind == "radon" and N < 2):      # scikit-image's radon itself fails for a 1 x 1 image
        s = np.array([[r.uniform(-1, 1) for _ in range(N)] for _ in range(A)])
    elif kind == "int":
        s = np.array([[float(r.randint(-4, 8)) for _ in range(N)] for _ in range(A)])
    elif kind == "ones":
        s = np.ones((A, N))
    elif kind == "edge":   # energy at the detector ends
        s = np.zeros((A, N))
        for a in range(A):
            s[a, 0] = float(r.randint(1, 5))
            s[a, N - 1] = float(r.randint(1, 5))
            if N > 2:
                s[a, r.randint(0, N - 1)] += 1.0
    else:  # "radon": scikit-image sinogram of a smooth/random image
        from skimage.transform import radon
        img = make_image("smooth" if r.chance(0.5) else "random", N, r.next() % (1 << 30))
        with warnings.catch_warnings():
            warnings.simplefilter("ignore")
            s = radon(img.astype(np.float64), theta=np.array(thetas if thetas is not None else np.arange(A) * 180.0 / A), circle=True).T
    return np.ascontiguousarray(s.astype(np.float32))


SINO_KINDS = ["random", "int", "ones", "edge", "radon"]


# ----------------------------------------------------------------------------------------------
# real code wrappers

def _torch():
    import torch
    return torch


LAYOUTS = ["contig", "transposed", "permuted", "strided", "f64", "f64-transposed"]
THETA_LAYOUTS = ["f32", "f64", "strided", "i64"]
FORMS = ["kw", "min", "pos"]     # how the public function is called: every argument by keyword / every argument that has its
#                                  documented default omitted / positionally in the documented order
DEVICES = [None, "cpu", "torch.device"]

_MOD = [None]        # the module instance under test (None: the imported quantem.tomography.radon.radon)
_FRESH = [0]


def radon_mod():
    if _MOD[0] is not None:
        return _MOD[0]
    import quantem.tomography.radon.radon as m
    return m


def fresh_module():
    """a NEW instance of the module under test, executed from the same source file: its own module-level state (caches,
    scratch buffers, registries).  Used (a) to start every call history from the initial state, so that a history is
    reproducible from its description alone, and (b) as the history-free reference for a single call.  None if the
    source cannot be executed on its own (then the history streams say so and use the imported module)."""
    import importlib.util
    import quantem.tomography.radon.radon as real
    try:
        _FRESH[0] += 1
        spec = importlib.util.spec_from_file_location(f"quantem.tomography.radon._qv_fresh_{_FRESH[0]}", real.__file__)
        mod = importlib.util.module_from_spec(spec)
        spec.loader.exec_module(mod)
        for fn in ("radon_torch", "iradon_torch", "get_fourier_filter_torch"):
            getattr(mod, fn)
        return mod
    except Exception:  # noqa
        return None


def to_layout(arr, layout):
    """torch tensor with the logical values of `arr` (float32-representable) in a given memory layout / dtype class:
    contig; transposed (dense non-contiguous: last two axes swapped in memory); permuted (batch axis last in memory, as
    Tomography.sirt_recon leaves its volume); strided (every other element of a larger buffer, non-dense); f64 variants."""
    torch = _torch()
    a = np.asarray(arr, dtype=np.float64 if layout.startswith("f64") else np.float32)
    kind = layout[4:] if layout.startswith("f64-") else ("contig" if layout == "f64" else layout)
    if kind == "permuted" and a.ndim < 3:
        kind = "transposed"
    if kind == "contig":
        t = torch.tensor(a)
    elif kind == "transposed":
        t = torch.tensor(np.ascontiguousarray(np.swapaxes(a, -1, -2))).transpose(-1, -2)
    elif kind == "permuted":
        t = torch.tensor(np.ascontiguousarray(np.moveaxis(a, 0, -1))).permute(2, 0, 1)
    elif kind == "strided":
        big = torch.full(tuple(2 * d for d in a.shape), 7.0, dtype=torch.tensor(a).dtype)
        idx = tuple(slice(None, None, 2) for _ in a.shape)
        big[idx] = torch.tensor(a)
        t = big[idx]
    else:
        raise ValueError(layout)
    assert tuple(t.shape) == a.shape and bool((t == torch.tensor(a)).all())
    return t


def theta_tensor(thetas, layout="f32"):
    torch = _torch()
    if layout == "i64" and all(float(t).is_integer() for t in thetas):
        return torch.tensor([int(t) for t in thetas], dtype=torch.int64)     # as the default torch.arange(180)
    if layout == "f64":
        return torch.tensor(thetas, dtype=torch.float64)
    if layout == "strided":
        big = torch.full((2 * len(thetas),), 11.0, dtype=torch.float32)
        big[::2] = torch.tensor(thetas, dtype=torch.float32)
        return big[::2]
    return torch.tensor(thetas, dtype=torch.float32)


def device_arg(device):
    return _torch().device("cpu") if device == "torch.device" else device


def call_form(fn, form, spec):
    """call `fn` with the arguments `spec` = [(name, value, documented_default_or_NOARG)] in documented order:
    'kw' every argument by keyword, 'min' omitting every argument equal to its documented default (so the defaults of the
    function under test decide), 'pos' positionally"""
    if form == "pos":
        return fn(*[v for _n, v, _d in spec])
    if form == "min":
        first = spec[0]
        kw = {n: v for n, v, d in spec[1:] if not (d is not NOARG and (v is d or (isinstance(v, (str, bool, int)) and v == d and type(v) is type(d))))}
        return fn(first[1], **kw)
    return fn(spec[0][1], **{n: v for n, v, _d in spec[1:]})


class _NoArg:
    pass


NOARG = _NoArg()

# the documented interface (scikit-image's for the shared arguments): name, default
RADON_DEFAULTS = {"theta": None, "device": None}
IRADON_DEFAULTS = {"theta": None, "output_size": None, "filter_name": "ramp", "circle": True, "device": None}
FILTER_DEFAULTS = {"filter_name": "ramp", "device": None}


def t_radon_raw(imgs_t, theta_t, form="kw", device=None):
    """radon_torch on tensors as given; returns the output tensor"""
    spec = [("images", imgs_t, NOARG), ("theta", theta_t, None), ("device", device_arg(device), None)]
    return call_form(radon_mod().radon_torch, form, spec)


def t_radon(imgs, thetas, layout="contig", theta_layout="f32", form="kw", device=None):
    th = None if thetas is None else theta_tensor(thetas, theta_layout)
    out = t_radon_raw(to_layout(imgs, layout), th, form, device)
    return out.detach().cpu().numpy().astype(np.float64)


def s_radon(img, thetas):
    from skimage.transform import radon
    with warnings.catch_warnings():
        warnings.simplefilter("ignore")
        th = None if thetas is None else np.asarray(thetas, dtype=np.float64)
        return radon(np.asarray(img, dtype=np.float64), theta=th, circle=True).T  # [A, N]


def t_filter_raw(size, name, form="kw", device=None, dtype=None):
    spec = [("size", size, NOARG), ("filter_name", name, "ramp"), ("device", device_arg(device), None)]
    if dtype is not None:
        spec.append(("dtype", getattr(_torch(), dtype), NOARG))
    return call_form(radon_mod().get_fourier_filter_torch, form, spec)


def t_filter(size, name, form="kw", device=None, dtype=None):
    return t_filter_raw(size, name, form, device, dtype).detach().cpu().numpy().astype(np.float64).ravel()


def s_filter(size, name):
    from skimage.transform.radon_transform import _get_fourier_filter
    with warnings.catch_warnings():
        warnings.simplefilter("ignore")
        return np.asarray(_get_fourier_filter(size, name), dtype=np.float64).ravel()


def t_iradon_raw(sinos_t, theta_t, filt, circle, out_size=None, form="kw", device=None):
    spec = [("sinograms", sinos_t, NOARG), ("theta", theta_t, None), ("output_size", out_size, None),
            ("filter_name", filt, "ramp"), ("circle", circle, True), ("device", device_arg(device), None)]
    return call_form(radon_mod().iradon_torch, form, spec)


def t_iradon(sinos, thetas, filt, circle, out_size=None, layout="contig", theta_layout="f32", form="kw", device=None):
    th = None if thetas is None else theta_tensor(thetas, theta_layout)
    out = t_iradon_raw(to_layout(sinos, layout), th, filt, circle, out_size, form, device)
    return out.detach().cpu().numpy().astype(np.float64)


def s_iradon(sino, thetas, filt, circle, out_size=None):
    from skimage.transform import iradon
    th = None if thetas is None else np.asarray(thetas, dtype=np.float64)
    with warnings.catch_warnings():
        warnings.simplefilter("ignore")
        return iradon(np.asarray(sino, dtype=np.float64).T.copy(), theta=th, output_size=out_size, filter_name=filt, circle=circle)


def err_name(e):
    n = type(e).__name__
    return n if n in ("ValueError", "TypeError", "IndexError", "RuntimeError", "KeyError") else "Other:" + n


def scale(ref):
    return max(1.0, float(np.max(np.abs(ref)))) if np.size(ref) else 1.0


def maxdiff(a, b):
    a = np.asarray(a, dtype=np.float64)
    b = np.asarray(b, dtype=np.float64)
    if a.shape != b.shape:
        return float("inf")
    if not (np.all(np.isfinite(a)) and np.all(np.isfinite(b))):
        return float("inf")
    return float(np.max(np.abs(a - b))) if a.size else 0.0


def worst(a, b):
    """(index, a, b) of the largest difference — for reports"""
    a = np.asarray(a, dtype=np.float64)
    b = np.asarray(b, dtype=np.float64)
    if a.shape != b.shape:
        return {"shape_observed": list(a.shape), "shape_required": list(b.shape)}
    i = np.unravel_index(int(np.argmax(np.abs(a - b))), a.shape)
    return {"index": [int(k) for k in i], "observed": float(a[i]), "required": float(b[i]), "maxabs_required": float(np.max(np.abs(b)))}


def views(impl, model):
    """(model_view, impl_view) at the index of the largest difference — small JSON for the report"""
    impl = np.asarray(impl, dtype=np.float64)
    model = np.asarray(model, dtype=np.float64)
    if impl.shape != model.shape:
        return {"shape": list(model.shape)}, {"shape": list(impl.shape)}
    i = np.unravel_index(int(np.argmax(np.abs(impl - model))), impl.shape)
    idx = [int(k) for k in i]
    return {"index": idx, "value": float(model[i])}, {"index": idx, "value": float(impl[i])}


# ----------------------------------------------------------------------------------------------
# model driver helpers

def bits(arr):
    from qv.driver import f2b
    return [f2b(v) for v in np.asarray(arr, dtype=np.float64).ravel()]


def unbits(lst, shape):
    from qv.driver import b2f
    return np.array([b2f(v) for v in lst], dtype=np.float64).reshape(shape)


class Model:
    def __init__(self):
        self.drv = None
        if not os.environ.get("QV_C07_NODRIVER"):
            from qv.driver import Driver
            self.drv = Driver("C07")

    def ask(self, obj):
        r = self.drv.ask(obj)
        if "err" in r and str(r["err"]).startswith(("parse", "driver", "bad")):
            raise RuntimeError(f"driver error {r} on {str(obj)[:200]}")
        return r

    def radon(self, alg, img, thetas):
        N = img.shape[0]
        r = self.ask({"op": "radon", "alg": alg, "n": N, "img": bits(img), "theta": bits(thetas)})
        return unbits(r["ok"], (len(thetas), N))

    def radon_batch(self, imgs, thetas):
        """[B, N, N] -> [B, A, N] through the model of the batched write loop (radonTorchBatchLoop)"""
        B, N = len(imgs), imgs[0].shape[0]
        r = self.ask({"op": "radon_batch", "alg": "torch", "n": N, "b": B, "img": bits(np.stack(imgs)), "theta": bits(thetas)})
        return unbits(r["ok"], (B, len(thetas), N))

    def filt(self, alg, size, name):
        r = self.ask({"op": "filter", "alg": alg, "size": size, "name": name if name is not None else "none"})
        if "err" in r:
            return r
        return unbits(r["ok"], (size,))

    def filt_token(self, alg, size, token):
        r = self.ask({"op": "filter", "alg": alg, "size": size, "name": token})
        if "err" in r:
            return r
        return unbits(r["ok"], (size,))

    def iradon(self, alg, sino, thetas, filt, circle, out=None):
        A, N = sino.shape
        r = self.ask({"op": "iradon", "alg": alg, "n": N, "a": A, "sino": bits(sino),
                      "theta": None if thetas is None else bits(thetas),
                      "filter": filt if filt is not None else "none", "circle": bool(circle), "out": out})
        if "err" in r:
            return r
        m = int(r["size"])
        return unbits(r["ok"], (m, m))

    def radon_rect(self, alg, img, thetas):
        """any H x W image, theta list or None (the default arange(180)); alg 'sk' gets the image scikit-image gets"""
        H, W = img.shape
        r = self.ask({"op": "radon_rect", "alg": alg, "h": H, "w": W, "img": bits(img), "theta": None if thetas is None else bits(thetas)})
        return unbits(r["ok"], (int(r["rows"]), min(H, W)))

    def iradon_e(self, alg, sino, thetas, token, circle, out=None):
        """the call as made: raw filter token, theta of any length or None, optional output size -> array or {'err': class}"""
        A, N = sino.shape
        r = self.ask({"op": "iradon_e", "alg": alg, "n": N, "sino": bits(sino), "theta": None if thetas is None else bits(thetas),
                      "filter": token, "circle": bool(circle), "out": out})
        if "err" in r:
            return r
        m = int(r["size"])
        return unbits(r["ok"], (m, m))

    def iradon_batch(self, sinos, thetas, filt, circle, out=None):
        """[B, A, N] -> [B, m, m] through the model of the batched accumulation loop (iradonTorchBatchLoop)"""
        B, (A, N) = len(sinos), sinos[0].shape
        r = self.ask({"op": "iradon_batch", "alg": "torch", "n": N, "a": A, "b": B, "sino": bits(np.stack(sinos)),
                      "theta": None if thetas is None else bits(thetas), "filter": filt if filt is not None else "none",
                      "circle": bool(circle), "out": out})
        if "err" in r:
            return r
        m = int(r["size"])
        return unbits(r["ok"], (B, m, m))

    def geom(self, N, circle, out=None):
        """the integers iradon_torch derives from the detector width (iradonGeom), exact"""
        return self.ask({"op": "geom", "alg": "torch", "n": N, "circle": bool(circle), "out": out})

    def close(self):
        if self.drv is not None:
            self.drv.close()


def name_token(name):
    """the filter argument as the model driver reads it: 'none' is Python None; every other value is looked up as a name"""
    if name is None:
        return "none"
    if isinstance(name, str):
        return "none-as-a-string" if name == "none" else name
    return f"<{type(name).__name__}:{name!r}>"


# ----------------------------------------------------------------------------------------------
# streams

def parity(N):
    return "even" if N % 2 == 0 else "odd"


def angles_outside(thetas):
    return thetas is not None and any(t < 0.0 or t > 180.0 for t in thetas)


def angle_class(thetas):
    """input-distribution class of an angle set (sign / quadrant / orientation themes)"""
    if thetas is None:
        return "default"
    c = []
    if any(t < 0 for t in thetas):
        c.append("negative")
    if any(t > 180 for t in thetas):
        c.append("beyond-180")
    if any(t == 180 for t in thetas):
        c.append("has-180")
    if len(thetas) > 1:
        if all(a > b for a, b in zip(thetas, thetas[1:])):
            c.append("descending")
        elif not all(a <= b for a, b in zip(thetas, thetas[1:])):
            c.append("unsorted")
        if len(set(thetas)) < len(thetas):
            c.append("duplicates")
    return "+".join(c) or "ascending-in-0-180"


def case_radon(ctx, model, case, with_model=True):
    """radon_torch vs skimage.radon vs model, + batched = single, + linearity, + theta=0 column sums"""
    N, kind, seeds, thetas = case["N"], case["img"], case["seeds"], case["thetas"]
    masked = case.get("masked", True)
    layout, tlay = case.get("layout", "contig"), case.get("theta_layout", "f32")
    form, device = case.get("form", "kw"), case.get("device")
    imgs = [make_image(kind, N, s, masked=masked) for s in seeds]
    B = len(imgs)
    ctx.count()
    ctx.dist[f"radon:call-form={form}"] += 1
    ctx.dist[f"radon:device-arg={device}"] += 1
    ctx.dist[f"radon:layout={layout}"] += 1
    ctx.dist[f"radon:theta-layout={tlay}"] += 1
    ctx.dist[f"radon:N={N}"] += 1
    ctx.dist[f"radon:img={kind}"] += 1
    ctx.dist[f"radon:batch={B}"] += 1
    ctx.dist[f"radon:angles={len(thetas)}"] += 1
    ctx.dist[f"radon:premasked={masked}"] += 1
    if any(np.any(im) for im in imgs):
        ctx.mark(("radon", N, len(thetas), kind, B, layout, tlay))
    # the quantifier names angles in [0, 180]; the statement says "every angle set" and the port takes any angle like the reference
    # (radon_angle_period): checked as well, under a key of its own
    ksize = f"radon-{parity(N)}-size" + ("-angles-outside-0-180" if angles_outside(thetas) else "")
    ctx.dist[f"radon:angle-set={angle_class(thetas)}"] += 1
    # --- real torch, batched call (B == 1: a 2-D tensor half of the time)
    arr = np.stack(imgs) if (B > 1 or case.get("keepdim", False)) else imgs[0]
    try:
        tb = t_radon(arr, thetas, layout, tlay, form, device)          # [B, A, N] or [A, N] when B == 1
    except Exception as e:  # noqa
        key = (f"radon-raises-{parity(N)}-size" if layout == "contig" and tlay == "f32" else
               ("radon-float64-image" if layout.startswith("f64") else f"radon-raises-layout-{layout}-theta-{tlay}"))
        ctx.pred_fail(key, f"radon_torch raised {err_name(e)}: {str(e)[:160]}", case, observed=err_name(e), required="a sinogram")
        return
    if B == 1:
        tb = tb[None] if tb.ndim == 2 else tb
    A = len(thetas)
    if tb.shape != (B, A, N):
        ctx.pred_fail("radon-shape", "radon_torch output shape", case, observed=list(tb.shape), required=[B, A, N])
        return
    for b, img in enumerate(imgs):
        dimg = (img * disc(N)).astype(np.float64)      # scikit-image circle mode assumes zero outside the circle
        ref = s_radon(dimg, thetas)
        # (1) property: agree with scikit-image
        d = maxdiff(tb[b], ref)
        ctx.stat_max(f"radon torch-vs-skimage rel ({parity(N)} N)", d / scale(ref))
        if d > TOL_PRED * scale(ref):
            ctx.pred_fail(ksize, f"radon_torch differs from skimage.transform.radon(circle=True) by {d:.3g} "
                          f"(tolerance {TOL_PRED * scale(ref):.3g})", dict(case, image_index=b), observed=worst(tb[b], ref), required="agreement")
        # (2) batched = per-image, and the result depends only on the values (not on memory layout / dtype class)
        if B > 1 or layout != "contig" or tlay != "f32" or form != "kw" or device is not None:
            single = t_radon(img, thetas)                 # contiguous float32 2-D call, every argument by keyword
            db = maxdiff(tb[b], single)
            tolb = TOL_BATCH if not (layout.startswith("f64") or tlay == "f64") else TOL_PRED
            ctx.stat_max("radon batched/layout-vs-single-contiguous rel", db / scale(single))
            if db > tolb * scale(single):
                key = ("radon-batch" if B > 1 else "radon-call-form") if layout == "contig" and tlay == "f32" else "radon-layout"
                ctx.pred_fail(key, f"radon_torch on a {layout} input (batch {B}, theta {tlay}, call form {form}, device argument {device}) differs from the per-image call on "
                              f"contiguous float32 tensors by {db:.3g}", dict(case, image_index=b), observed=worst(tb[b], single), required="equal")
        # (3) correspondence with the model (first image only: cost)
        if with_model and model.drv is not None and b == 0:
            mt = model.radon("torch", img.astype(np.float64), thetas)
            ms = model.radon("sk", dimg, thetas)
            dt = maxdiff(tb[b], mt)
            ds = maxdiff(ref, ms)
            ctx.stat_max("radon model-vs-torch rel", dt / scale(mt))
            ctx.stat_max("radon model-vs-skimage rel", ds / scale(ms))
            ctx.dist["radon:model-compared"] += 1
            if dt > TOL32 * scale(mt):
                ctx.disagree("radonTorch", case, *views(tb[b], mt), note=f"maxdiff {dt:.3g}")
            if ds > TOL64 * scale(ms):
                ctx.disagree("radonSk", case, *views(ref, ms), note=f"maxdiff {ds:.3g}")
    # (3b) the batched call against the model of the batched write loop (one zero tensor, one slice assignment per angle)
    if with_model and model.drv is not None and B >= 2 and case.get("batch_model", False):
        mb = model.radon_batch([im.astype(np.float64) for im in imgs], thetas)
        ctx.dist["radon:batched-write-loop-model-compared"] += 1
        db = maxdiff(tb, mb)
        ctx.stat_max("radon batched model-vs-torch rel", db / scale(mb))
        if db > TOL32 * scale(mb):
            ctx.disagree("radonTorchBatchLoop", case, *views(tb, mb), note=f"maxdiff {db:.3g}")
    # (4) linearity on the implementation: R(a x + b y) = a R(x) + b R(y)
    if B >= 2:
        a, c = case.get("coef", [2.0, -0.5])
        comb = (np.float32(a) * imgs[0] + np.float32(c) * imgs[1]).astype(np.float32)
        lhs = t_radon(comb, thetas)
        rhs = a * tb[0] + c * tb[1]
        dl = maxdiff(lhs, rhs)
        sc = max(scale(tb[0]) * abs(a), scale(tb[1]) * abs(c), 1.0)
        ctx.stat_max("radon linearity rel", dl / sc)
        ctx.dist["radon:linearity-checked"] += 1
        if dl > TOL_LIN * sc:
            ctx.pred_fail("radon-linear", f"radon_torch(a*x+b*y) differs from a*radon(x)+b*radon(y) by {dl:.3g}", case,
                          observed=worst(lhs, rhs), required="linear")
    ctx.sample({"stream": "radon", **case}, limit=3)


def case_proj0(ctx, model, case):
    """theta = 0: the projection equals the column sums of the disc-masked image (integer images, tolerance 2e-5)"""
    N, seed, masked = case["N"], case["seed"], case.get("masked", False)
    img = make_image(case.get("img", "int"), N, seed, masked=masked)
    layout = case.get("layout", "contig")
    ctx.count()
    ctx.dist[f"proj0:N={N}"] += 1
    ctx.dist[f"proj0:layout={layout}"] += 1
    ctx.mark(("proj0", N, masked, layout))
    want = (img.astype(np.float64) * disc(N)).sum(axis=0)
    try:
        got = t_radon(img, [0.0], layout)
    except Exception as e:  # noqa
        ctx.pred_fail("radon-float64-image" if layout.startswith("f64") else "radon-proj0-colsum",
                      f"radon_torch raised {err_name(e)}: {str(e)[:120]}", case, observed=err_name(e), required=want.tolist())
        return
    got = got.reshape(-1)
    # not bit-exact: grid_sample's [-1,1] normalisation round trip is done in float32 (15 * 2/15 ... -> 12.999999)
    d = maxdiff(got, want)
    ctx.stat_max("proj0 torch-vs-column-sum rel", d / scale(want))
    if d > TOL_PROJ0 * scale(want):
        ctx.pred_fail("radon-proj0-colsum", f"projection at 0 degrees differs from the column sum of the disc-masked image by {d:.3g}",
                      case, observed=got.tolist(), required=want.tolist())
    if model.drv is not None:
        mt = model.radon("torch", img.astype(np.float64), [0.0]).reshape(-1)
        ctx.dist["proj0:model-compared"] += 1
        dm = maxdiff(mt, got)
        ctx.stat_max("proj0 model-vs-torch rel", dm / scale(mt))
        if dm > TOL_PROJ0 * scale(mt):
            ctx.disagree("radonTorch-theta0", case, mt.tolist(), got.tolist(), note="theta=0 stream (integer image)")
    ctx.sample({"stream": "proj0", **case}, limit=4)


def case_filter(ctx, model, case):
    size, name = case["size"], case["name"]
    form, device, dtype = case.get("form", "kw"), case.get("device"), case.get("dtype")
    known = name is None or (isinstance(name, str) and name in FILTERS)
    ctx.count()
    ctx.dist[f"filter:{name if known else 'unknown-name'}"] += 1
    ctx.dist[f"filter:call-form={form}"] += 1
    ctx.dist[f"filter:dtype-arg={dtype}"] += 1
    ctx.dist[f"filter:size-bucket={'zero' if size == 0 else ('odd' if size % 2 else ('<=32' if size <= 32 else ('64/128/256' if size in (64, 128, 256) else 'other-even')))}"] += 1
    try:
        tf = t_filter(size, name, form, device, dtype)
    except Exception as e:  # noqa
        tf = {"err": err_name(e)}
    if size % 2 == 1 or size == 0 or not known:
        # error branches (outside the property: filter sizes are even >= 2, names are the six).  The port rejects odd sizes and
        # unknown names explicitly and size 0 in torch.arange; scikit-image fails implicitly for odd sizes (its float-bounds `n`
        # array does not broadcast into f[1::2]) except size 1, raises IndexError for size 0, and its private helper returns the
        # ramp for an unknown name (the name check is in iradon).  Both models must reproduce their side.
        try:
            sf = s_filter(size, name)
        except Exception as e:  # noqa
            sf = {"err": err_name(e)}
        ctx.dist[f"filter-rejected:port={tf['err'] if isinstance(tf, dict) else 'returns'},skimage={sf['err'] if isinstance(sf, dict) else 'returns'}"] += 1
        if model.drv is not None:
            mf = model.filt_token("torch", size, name_token(name))
            if not (isinstance(mf, dict) and isinstance(tf, dict) and mf.get("err") == tf.get("err")):
                ctx.disagree("filterTorch-error", case, mf if isinstance(mf, dict) else "array", tf if isinstance(tf, dict) else "array")
            ms = model.filt_token("sk", size, name_token(name))
            if isinstance(ms, dict) != isinstance(sf, dict) or (isinstance(ms, dict) and ms.get("err") != sf.get("err")):
                ctx.disagree("filterSk-odd-size", case, ms if isinstance(ms, dict) else "array", sf if isinstance(sf, dict) else "array")
            elif not isinstance(ms, dict) and maxdiff(sf, ms) > TOL64 * scale(ms):
                ctx.disagree("filterSk-odd-size", case, *views(sf, ms))
        return
    ctx.mark(("filter", size, name, form, dtype))
    ref = s_filter(size, name)
    if isinstance(tf, dict):
        ctx.pred_fail(f"filter-{name}", f"get_fourier_filter_torch raised {tf['err']}", case, observed=tf, required="a filter")
        return
    d = maxdiff(tf, ref)
    ctx.stat_max(f"filter torch-vs-skimage abs ({name})", d)
    if d > TOL_FILTER * scale(ref):
        ctx.pred_fail(f"filter-{name}", f"get_fourier_filter_torch({size}, {name!r}) [call form {form}, dtype argument {dtype}] differs from "
                      f"skimage _get_fourier_filter by {d:.3g}", case, observed=worst(tf, ref), required="agreement")
    if model.drv is not None and case.get("model", True):
        mt = model.filt("torch", size, name)
        ms = model.filt("sk", size, name)
        ctx.dist["filter:model-compared"] += 1
        dt, ds = maxdiff(tf, mt), maxdiff(ref, ms)
        ctx.stat_max("filter model-vs-torch abs", dt)
        ctx.stat_max("filter model-vs-skimage abs", ds)
        if dt > TOL32 * scale(mt):
            ctx.disagree("filterTorch", case, *views(tf, mt), note=f"maxdiff {dt:.3g}")
        if ds > TOL64 * scale(ms):
            ctx.disagree("filterSk", case, *views(ref, ms), note=f"maxdiff {ds:.3g}")
    ctx.sample({"stream": "filter", **case}, limit=5)


def disc_rect(H, W):
    y, x = np.mgrid[:H, :W]
    r = min(H, W) // 2
    return ((x - W // 2) ** 2 + (y - H // 2) ** 2) <= r * r


def make_rect(kind, H, W, seed):
    """float32 H x W image, non-zero outside the disc too"""
    from qv.prng import Rng
    r = Rng(seed)
    if kind == "int":
        img = np.array([[float(r.randint(0, 8)) for _ in range(W)] for _ in range(H)])
    elif kind == "ones":
        img = np.ones((H, W))
    elif kind == "ramp":
        y, x = np.mgrid[:H, :W]
        img = (1.0 + x + 2.0 * y) / 4.0
    else:
        img = np.array([[r.random() for _ in range(W)] for _ in range(H)])
    return img.astype(np.float32)


def case_radon_rect(ctx, model, case, with_model=True):
    """radon_torch on an image of ANY shape H x W (mask on the full grid, crop to the inscribed square) and/or WITHOUT theta
    (the default 180 whole degrees): vs skimage.radon of the disc-masked image (scikit-image does the same crop), vs the model"""
    H, W, kind, seed, thetas = case["H"], case["W"], case["img"], case["seed"], case["thetas"]
    form, device = case.get("form", "kw"), case.get("device")
    img = make_rect(kind, H, W, seed)
    N = min(H, W)
    ctx.count()
    ctx.dist[f"radon-rect:shape={'square' if H == W else ('tall' if H > W else 'wide')},excess={'even' if abs(H - W) % 2 == 0 else 'odd'},N={parity(N)}"] += 1
    ctx.dist[f"radon-rect:theta={'default' if thetas is None else 'given'}"] += 1
    ctx.mark(("radon-rect", H, W, kind, thetas is None, form))
    key = "radon-default-theta" if thetas is None and H == W else "radon-nonsquare"
    Bn = case.get("B", 1)
    if Bn > 1:          # a batch of H x W images in one call: every item must be scikit-image's sinogram of that item
        stack = np.stack([make_rect(kind, H, W, seed + b) for b in range(Bn)])
        ctx.dist[f"radon-rect:batch={Bn}"] += 1
        try:
            gotb = t_radon(stack, thetas, case.get("layout", "contig"), case.get("theta_layout", "f32"), form, device)
        except Exception as e:  # noqa
            ctx.pred_fail(key, f"radon_torch raised {err_name(e)} on a batch of {Bn} {H} x {W} images: {str(e)[:160]}", case, observed=err_name(e), required="sinograms")
            return
        for b in range(Bn):
            refb = s_radon((stack[b] * disc_rect(H, W)).astype(np.float64), thetas)
            if gotb.ndim != 3 or gotb[b].shape != refb.shape:
                ctx.pred_fail("radon-shape", f"radon_torch output shape on a batch of {Bn} {H} x {W} images", case, observed=list(gotb.shape), required=[Bn] + list(refb.shape))
                return
            d = maxdiff(gotb[b], refb)
            ctx.stat_max("radon-rect torch-vs-skimage rel", d / scale(refb))
            if d > TOL_PRED * scale(refb):
                ctx.pred_fail(key, f"radon_torch on a batch of {Bn} {H} x {W} images differs from skimage.transform.radon(circle=True) of the "
                              f"disc-masked item {b} by {d:.3g} (tolerance {TOL_PRED * scale(refb):.3g})", dict(case, image_index=b),
                              observed=worst(gotb[b], refb), required="agreement")
        return
    try:
        got = t_radon(img, thetas, "contig", case.get("theta_layout", "f32"), form, device)
    except Exception as e:  # noqa
        ctx.pred_fail(key, f"radon_torch raised {err_name(e)} on a {H} x {W} image: {str(e)[:160]}", case, observed=err_name(e), required="a sinogram")
        return
    dimg = (img * disc_rect(H, W)).astype(np.float64)
    ref = s_radon(dimg, thetas)
    if got.shape != ref.shape:
        ctx.pred_fail("radon-shape", f"radon_torch output shape on a {H} x {W} image", case, observed=list(got.shape), required=list(ref.shape))
        return
    d = maxdiff(got, ref)
    ctx.stat_max("radon-rect torch-vs-skimage rel", d / scale(ref))
    if d > TOL_PRED * scale(ref):
        ctx.pred_fail(key, f"radon_torch on a {H} x {W} image ({'default' if thetas is None else 'given'} angles) differs from "
                      f"skimage.transform.radon(circle=True) of the disc-masked image by {d:.3g} (tolerance {TOL_PRED * scale(ref):.3g})",
                      case, observed=worst(got, ref), required="agreement")
    if with_model and model.drv is not None:
        mt = model.radon_rect("torch", img.astype(np.float64), thetas)
        ms = model.radon_rect("sk", dimg, thetas)
        ctx.dist["radon-rect:model-compared"] += 1
        dt, ds = maxdiff(got, mt), maxdiff(ref, ms)
        ctx.stat_max("radon-rect model-vs-torch rel", dt / scale(mt))
        ctx.stat_max("radon-rect model-vs-skimage rel", ds / scale(ms))
        if dt > TOL32 * scale(mt):
            ctx.disagree("radonTorchRect", case, *views(got, mt), note=f"maxdiff {dt:.3g}")
        if ds > TOL64 * scale(ms):
            ctx.disagree("radonSkRect", case, *views(ref, ms), note=f"maxdiff {ds:.3g}")
    ctx.sample({"stream": "radon-rect", **case}, limit=8)


def edge_distance(N, A_thetas, circle, out=None):
    """smallest distance of any back-projected (unmasked) detector position to the two detector ends, where the interpolant
    jumps between the end sample and 0 (float32 and float64 positions may fall on different sides)"""
    m = out if out is not None else (N if circle else int(np.floor(np.sqrt(N ** 2 / 2.0))))
    D = int(math.ceil(math.sqrt(2) * N)) if circle else N
    r = m // 2
    xs = (np.arange(m) - r).astype(np.float64)
    keep = (xs[None, :] ** 2 + xs[:, None] ** 2 <= r ** 2) if circle else np.ones((m, m), dtype=bool)
    if not keep.any():
        return float("inf")
    best = float("inf")
    for th in A_thetas:
        a = math.radians(th)
        t = (xs[None, :] * math.cos(a) - xs[:, None] * math.sin(a) + D // 2)[keep]
        best = min(best, float(np.min(np.abs(t))), float(np.min(np.abs(t - (D - 1)))))
    return best


def case_iradon(ctx, model, case, with_model=True):
    N, A, kind, seeds = case["N"], case["A"], case["sino"], case["seeds"]
    thetas, filt, circle = case["thetas"], case["filter"], case["circle"]
    out, layout, tlay = case.get("out"), case.get("layout", "contig"), case.get("theta_layout", "f32")
    form, device = case.get("form", "kw"), case.get("device")
    sinos = [make_sino(kind, A, N, s, thetas) for s in seeds]
    B = len(sinos)
    ctx.count()
    ctx.dist[f"iradon:call-form={form}"] += 1
    ctx.dist[f"iradon:device-arg={device}"] += 1
    ctx.dist[f"iradon:output_size={'default' if out is None else ('zero' if out == 0 else ('=N' if out == N else ('<N' if out < N else '>N')))}"] += 1
    ctx.dist[f"iradon:layout={layout}"] += 1
    ctx.dist[f"iradon:theta-layout={tlay}"] += 1
    ctx.dist[f"iradon:N={N}"] += 1
    ctx.dist[f"iradon:sino={kind}"] += 1
    ctx.dist[f"iradon:filter={filt}"] += 1
    ctx.dist[f"iradon:circle={circle}"] += 1
    ctx.dist[f"iradon:batch={B}"] += 1
    ctx.dist[f"iradon:angles={A}"] += 1
    ctx.dist[f"iradon:theta={'default' if thetas is None else 'given'}"] += 1
    if any(np.any(s) for s in sinos):
        ctx.mark(("iradon", N, A, kind, filt, circle, B, thetas is None, None if out is None else (out > N) - (out < N), layout, tlay))
    suffix = ("" if circle else "-nocircle") + ("" if out is None else "-output-size")
    key = "iradon-default-theta" if thetas is None else f"iradon-{parity(N)}-size{suffix}" + ("-angles-outside-0-180" if angles_outside(thetas) else "")
    ctx.dist[f"iradon:angle-set={angle_class(thetas)}"] += 1
    arr = np.stack(sinos) if (B > 1 or case.get("keepdim", False)) else sinos[0]
    try:
        tb = t_iradon(arr, thetas, filt, circle, out, layout, "f32" if thetas is None else tlay, form, device)
    except Exception as e:  # noqa
        k2 = key if layout == "contig" and tlay == "f32" else f"iradon-raises-layout-{layout}-theta-{tlay}"
        ctx.pred_fail(k2, f"iradon_torch raised {err_name(e)}: {str(e)[:160]}", case, observed=err_name(e), required="a reconstruction")
        return
    if B == 1 and tb.ndim == 2:
        tb = tb[None]
    for b, sino in enumerate(sinos):
        ref = s_iradon(sino, thetas, filt, circle, out)
        if tb[b].shape != ref.shape:
            ctx.pred_fail("iradon-shape", "iradon_torch output shape", case, observed=list(tb[b].shape), required=list(ref.shape))
            return
        d = maxdiff(tb[b], ref)
        ctx.stat_max(f"iradon torch-vs-skimage rel ({parity(N)} N, circle={circle})", d / scale(ref))
        if d > TOL_PRED * scale(ref):
            ctx.pred_fail(key, f"iradon_torch(filter={filt!r}, circle={circle}) differs from skimage.transform.iradon by {d:.3g} "
                          f"(tolerance {TOL_PRED * scale(ref):.3g})", dict(case, sino_index=b), observed=worst(tb[b], ref), required="agreement")
        if B > 1 or layout != "contig" or tlay != "f32" or form != "kw" or device is not None:
            single = t_iradon(sino, thetas, filt, circle, out)      # contiguous float32 2-D call, every argument by keyword
            db = maxdiff(tb[b], single)
            tolb = TOL_BATCH if not (layout.startswith("f64") or tlay == "f64") else TOL_PRED
            ctx.stat_max("iradon batched/layout-vs-single-contiguous rel", db / scale(single))
            if db > tolb * scale(single):
                k2 = ("iradon-batch" if B > 1 else "iradon-call-form") if layout == "contig" and tlay == "f32" else "iradon-layout"
                ctx.pred_fail(k2, f"iradon_torch on a {layout} input (batch {B}, theta {tlay}, call form {form}, device argument {device}) differs from the per-sinogram call on "
                              f"contiguous float32 tensors by {db:.3g}", dict(case, sino_index=b), observed=worst(tb[b], single), required="equal")
        if with_model and model.drv is not None and b == 0:
            if case.get("via_e", False):       # the validated entry point of the model (iradonTorchE / iradonSkE)
                mt = model.iradon_e("torch", sino.astype(np.float64), thetas, name_token(filt), circle, out)
                ms = model.iradon_e("sk", sino.astype(np.float64), thetas, name_token(filt), circle, out)
                ctx.dist["iradon:model-compared-through-validated-entry"] += 1
            else:
                mt = model.iradon("torch", sino.astype(np.float64), thetas, filt, circle, out)
                ms = model.iradon("sk", sino.astype(np.float64), thetas, filt, circle, out)
            ctx.dist["iradon:model-compared"] += 1
            if isinstance(mt, dict) or isinstance(ms, dict):
                ctx.disagree("iradon-error", case, [str(mt)[:80], str(ms)[:80]], "arrays")
            else:
                dt, ds = maxdiff(tb[b], mt), maxdiff(ref, ms)
                ctx.stat_max("iradon model-vs-torch rel", dt / scale(mt))
                ctx.stat_max("iradon model-vs-skimage rel", ds / scale(ms))
                if dt > TOL32 * scale(mt):
                    ctx.disagree("iradonTorch", case, *views(tb[b], mt), note=f"maxdiff {dt:.3g}")
                if ds > TOL64 * scale(ms):
                    ctx.disagree("iradonSk", case, *views(ref, ms), note=f"maxdiff {ds:.3g}")
    # the batched call against the model of the batched accumulation loop (one zero tensor, recon += proj per angle across the batch)
    if with_model and model.drv is not None and B >= 2 and case.get("batch_model", False) and isinstance(filt, (str, type(None))):
        mb = model.iradon_batch([sn.astype(np.float64) for sn in sinos], thetas, filt, circle, out)
        ctx.dist["iradon:batched-accumulation-loop-model-compared"] += 1
        if isinstance(mb, dict):
            ctx.disagree("iradonTorchBatchLoop", case, str(mb)[:80], "arrays")
        else:
            db = maxdiff(tb, mb)
            ctx.stat_max("iradon batched model-vs-torch rel", db / scale(mb))
            if db > TOL32 * scale(mb):
                ctx.disagree("iradonTorchBatchLoop", case, *views(tb, mb), note=f"maxdiff {db:.3g}")
    if B >= 2:
        a, c = case.get("coef", [2.0, -0.5])
        comb = (np.float32(a) * sinos[0] + np.float32(c) * sinos[1]).astype(np.float32)
        lhs = t_iradon(comb, thetas, filt, circle, out)
        rhs = a * tb[0] + c * tb[1]
        dl = maxdiff(lhs, rhs)
        sc = max(scale(tb[0]) * abs(a), scale(tb[1]) * abs(c), 1.0)
        ctx.stat_max("iradon linearity rel", dl / sc)
        ctx.dist["iradon:linearity-checked"] += 1
        if dl > TOL_LIN * sc:
            ctx.pred_fail("iradon-linear", f"iradon_torch(a*x+b*y) differs from a*iradon(x)+b*iradon(y) by {dl:.3g}", case,
                          observed=worst(lhs, rhs), required="linear")
    ctx.sample({"stream": "iradon", **case}, limit=6)


UNKNOWN_NAMES = ["bogus", "", "Ramp", "hanning", "none", "RAMP", "shepp_logan", "hann ", 0, False]


def case_iradon_errors(ctx, model, case):
    """malformed stream: wrong number of angles / unknown filter argument -> the port and scikit-image must both reject the call
    (same exception class), and both models must give that outcome (iradonTorchE / iradonSkE)"""
    ctx.count()
    ctx.dist[f"iradon-malformed:{case['what']}"] += 1
    N, A = case["N"], case["A"]
    circle, out = case.get("circle", True), case.get("out")
    sino = make_sino("random", A, N, 1)
    if case["what"] == "theta-length":
        thetas = [float(10 + 3 * i) for i in range(max(0, A + case.get("delta", 1)))]
    else:
        thetas = None if case.get("default_theta") else [float(7 * i) for i in range(A)]
    filt = case.get("name", "bogus") if case["what"] == "unknown-filter" else case.get("good_name", "ramp")
    outs = []
    for f in (lambda: t_iradon(sino, thetas, filt, circle, out), lambda: s_iradon(sino, thetas, filt, circle, out)):
        try:
            f()
            outs.append("ok")
        except Exception as e:  # noqa
            outs.append(err_name(e))
    if outs[0] != outs[1]:
        ctx.pred_fail("iradon-error-kind", f"iradon_torch and skimage.iradon disagree on rejecting a malformed call ({case['what']})",
                      case, observed=outs[0], required=outs[1])
    if model.drv is not None:
        for alg, impl in (("torch", outs[0]), ("sk", outs[1])):
            m = model.iradon_e(alg, sino.astype(np.float64), thetas, name_token(filt), circle, out)
            mo = m.get("err") if isinstance(m, dict) else "ok"
            if mo != impl:
                ctx.disagree(f"iradon-outcome-{alg}", case, mo, impl, note="outcome class of a malformed call")


def case_sirt(ctx, model, case):
    """the user of the port (anchor tomography_conv.py): the forward projection that
    TomographyConv._sirt_run_epoch computes for a volume (one batched radon_torch call over the
    slices, angles as the class passes them) must be scikit-image's sinogram of every slice.
    Only the sinogram is a predicate; the SIRT update rule itself is not part of the property."""
    import types
    torch = _torch()
    N, D, thetas, seeds = case["N"], case["D"], case["thetas"], case["seeds"]
    ctx.count()
    ctx.dist[f"sirt:N={N}"] += 1
    ctx.dist[f"sirt:slices={D}"] += 1
    vol = np.stack([make_image(case["img"], N, s, masked=False) for s in seeds])
    tilt = np.stack([make_sino("random", len(thetas), N, s + 1) for s in seeds])
    epochs, inline, gauss = case.get("epochs", 1), case.get("inline", False), case.get("gauss", False)
    ctx.dist[f"sirt:epochs={epochs},inline-alignment={inline},gaussian-kernel={gauss}"] += 1
    ctx.mark(("sirt", N, D, len(thetas), epochs, inline, gauss))
    pf_in = torch.zeros(D, len(thetas), N)
    try:
        from quantem.tomography.tomography_conv import TomographyConv
        angles = torch.tensor(thetas, dtype=torch.float32)

        class _Vol:                       # as the volume object of the class: `obj` reads / re-binds `_obj`
            @property
            def obj(self):
                return self._obj

            @obj.setter
            def obj(self, val):
                self._obj = val
        v = _Vol()
        v._obj = to_layout(vol, case.get("layout", "contig"))
        fake = types.SimpleNamespace(dataset=types.SimpleNamespace(tilt_angles=angles), volume_obj=v, device=torch.device("cpu"))
        kernel = torch.tensor([0.25, 0.5, 0.25]) if gauss else None
    except (TypeError, AttributeError, ImportError) as e:
        ctx.dist["sirt:not-callable-with-stub:" + type(e).__name__] += 1
        return
    for ep in range(epochs):
        # the volume the epoch starts from (epoch 0: as given; later: whatever the previous epoch left — update rule, smoothing and
        # alignment are NOT part of the property, only that the forward projection returned is the sinogram of that volume)
        before = v._obj.detach().cpu().numpy().astype(np.float64).copy()
        try:
            pf, _loss = TomographyConv._sirt_run_epoch(fake, torch.tensor(tilt), pf_in, angles,
                                                       bool(inline and ep > 0), case["filter"], True, kernel)
        except (TypeError, AttributeError, IndexError) as e:  # the private epoch signature / stub contract changed: not a property matter
            ctx.dist["sirt:not-callable-with-stub:" + type(e).__name__] += 1
            return
        pf_in = pf
        pfa = pf.detach().cpu().numpy().astype(np.float64)
        if pfa.ndim == 2:
            pfa = pfa[None]
        if pfa.shape != (D, len(thetas), N) or not np.all(np.isfinite(before)):
            ctx.dist["sirt:epoch-output-not-comparable"] += 1
            return
        for d in range(D):
            ref = s_radon((before[d] * disc(N)).astype(np.float64), thetas)
            dd = maxdiff(pfa[d], ref)
            ctx.stat_max("sirt forward projection vs skimage rel", dd / scale(ref))
            if dd > TOL_PRED * scale(ref):
                ctx.pred_fail(f"sirt-forward-{parity(N)}-size", f"forward projection inside TomographyConv._sirt_run_epoch (epoch {ep}, slice {d} of {D}) differs from "
                              f"skimage.radon of the slice by {dd:.3g}", dict(case, slice=d, epoch=ep), observed=worst(pfa[d], ref), required="agreement")
                return
    ctx.sample({"stream": "sirt", **case}, limit=7)


# ----------------------------------------------------------------------------------------------
# call histories: valid calls, rejected calls, scribbling on what was handed out

class HistCtx:
    """ctx seen by the case functions inside a history: failures are reported with the WHOLE history as the case (the failing
    input is the sequence of calls, not the last call alone)"""

    def __init__(self, ctx, hist, i):
        self.__dict__["_ctx"], self.__dict__["_hist"], self.__dict__["_i"] = ctx, hist, i

    def __getattr__(self, name):
        return getattr(self._ctx, name)

    def _where(self):
        ops = self._hist["ops"]
        before = [f"{k}:{o['what']}" if o["kind"] == "reject" else o["kind"] for k, o in enumerate(ops[:self._i])]
        return f"[call {self._i} of a history of {len(ops)} calls in one process; before it: {', '.join(before) or 'nothing'}] "

    def pred_fail(self, key, what, case, observed=None, required=None):
        extra = {k: case[k] for k in ("image_index", "sino_index") if k in case}
        self._ctx.pred_fail(key + "-in-history", self._where() + what, dict(self._hist, at=self._i, **extra), observed=observed, required=required)

    def disagree(self, stream, case, model, impl, note=""):
        self._ctx.disagree(stream + "-in-history", dict(self._hist, at=self._i), model, impl, note=self._where() + note)

    def sample(self, case, limit=4):
        pass


REJECTS = ["iradon-unknown-filter", "iradon-theta-length", "iradon-negative-output-size", "iradon-fractional-output-size",
           "iradon-bad-ndim", "radon-integer-image", "radon-theta-2d", "radon-theta-list", "radon-bad-ndim",
           "filter-odd-size", "filter-unknown-name", "filter-size-zero"]


def run_reject(ctx, op):
    """a call the port is expected to reject (bad argument, failing validation, an exception from a callee) — some of them only
    after it has done part of its work.  No predicate: what matters is that the caller carries on afterwards."""
    torch = _torch()
    what, N, A, B = op["what"], op.get("N", 6), op.get("A", 2), op.get("B", 1)
    sino = np.stack([make_sino("random", A, N, op.get("seed", 1) + b) for b in range(B)])
    sino_t = torch.tensor(sino if B > 1 else sino[0])
    th = theta_tensor([float(np.float32(11.0 + 37.0 * i)) for i in range(A)])
    img_t = torch.tensor(np.stack([make_image("random", N, op.get("seed", 1) + b, masked=False) for b in range(B)]))
    m = radon_mod()
    calls = {
        "iradon-unknown-filter": lambda: m.iradon_torch(sino_t, theta=th, filter_name=op.get("name", "hanning"), circle=op.get("circle", True)),
        "iradon-theta-length": lambda: m.iradon_torch(sino_t, theta=theta_tensor([1.0] * (A + 1)), circle=op.get("circle", True)),
        "iradon-negative-output-size": lambda: m.iradon_torch(sino_t, theta=th, output_size=-3, filter_name=op.get("good_name", "ramp"), circle=op.get("circle", True)),
        "iradon-fractional-output-size": lambda: m.iradon_torch(sino_t, theta=th, output_size=N + 0.5, circle=op.get("circle", True)),
        "iradon-bad-ndim": lambda: m.iradon_torch(sino_t.reshape(-1), theta=th),
        "radon-integer-image": lambda: m.radon_torch((img_t * 8).to(torch.int64), theta=th),
        "radon-theta-2d": lambda: m.radon_torch(img_t, theta=torch.zeros(A, 2)),
        "radon-theta-list": lambda: m.radon_torch(img_t, theta=[0.0, 45.0]),
        "radon-bad-ndim": lambda: m.radon_torch(img_t.reshape(-1), theta=th),
        "filter-odd-size": lambda: m.get_fourier_filter_torch(op.get("size", 64) + 1, op.get("good_name", "ramp")),
        "filter-unknown-name": lambda: m.get_fourier_filter_torch(op.get("size", 64), op.get("name", "hanning")),
        "filter-size-zero": lambda: m.get_fourier_filter_torch(0, op.get("good_name", "ramp")),
    }
    try:
        calls[what]()
        outcome = "returned"
    except Exception as e:  # noqa
        outcome = "raised " + err_name(e)
    ctx.dist[f"history:rejected-call {what} -> {outcome}"] += 1
    return outcome


def plain_call(op, scribble):
    """the primary call of a valid history op on the module under test, result as float64 array.  With `scribble` the caller then
    overwrites, in place, what it was handed (the returned tensor) and what it passed in (its own input tensors) — it owns both."""
    torch = _torch()
    k = op["kind"]
    ins = []
    if k == "filter":
        out = t_filter_raw(op["size"], op["name"], op.get("form", "kw"), op.get("device"), op.get("dtype"))
    elif k == "radon":
        imgs = [make_image(op["img"], op["N"], sd, masked=op.get("masked", True)) for sd in op["seeds"]]
        arr = np.stack(imgs) if (len(imgs) > 1 or op.get("keepdim", False)) else imgs[0]
        ins = [to_layout(arr, op.get("layout", "contig")), theta_tensor(op["thetas"], op.get("theta_layout", "f32"))]
        out = t_radon_raw(ins[0], ins[1], op.get("form", "kw"), op.get("device"))
    elif k == "radon-rect":
        ins = [torch.tensor(make_rect(op["img"], op["H"], op["W"], op["seed"]))]
        th = None if op["thetas"] is None else theta_tensor(op["thetas"], op.get("theta_layout", "f32"))
        ins.append(th)
        out = t_radon_raw(ins[0], th, op.get("form", "kw"), op.get("device"))
    elif k == "iradon":
        sinos = [make_sino(op["sino"], op["A"], op["N"], sd, op["thetas"]) for sd in op["seeds"]]
        arr = np.stack(sinos) if (len(sinos) > 1 or op.get("keepdim", False)) else sinos[0]
        th = None if op["thetas"] is None else theta_tensor(op["thetas"], op.get("theta_layout", "f32"))
        ins = [to_layout(arr, op.get("layout", "contig")), th]
        out = t_iradon_raw(ins[0], th, op["filter"], op["circle"], op.get("out"), op.get("form", "kw"), op.get("device"))
    else:
        raise ValueError(k)
    res = out.detach().cpu().numpy().astype(np.float64).copy()
    if scribble:
        with torch.no_grad():
            out.fill_(float("nan"))
            for t in ins:
                if t is not None:
                    t.fill_(123)
    return res


def case_history(ctx, model, case):
    """a HISTORY of public calls in one process on a fresh instance of the module: valid calls (each one checked exactly like a
    single call — scikit-image agreement, batched = single, linearity, model — AND against the same call on another fresh
    instance), calls that are rejected part-way, and a caller that overwrites the tensors it was handed."""
    ops = case["ops"]
    ctx.count()
    ctx.dist[f"history:length={len(ops)}"] += 1
    ctx.dist[f"history:rejected-calls={sum(1 for o in ops if o['kind'] == 'reject')}"] += 1
    ctx.mark(("history", tuple(o["what"] if o["kind"] == "reject" else o["kind"] for o in ops)))
    mod = fresh_module()
    if mod is None:
        ctx.dist["history:fresh-module-instance-unavailable (imported module used; replay depends on the process)"] += 1
    old = _MOD[0]
    _MOD[0] = mod
    try:
        seen_reject = False
        for i, op in enumerate(ops):
            if op["kind"] == "reject":
                run_reject(ctx, op)
                seen_reject = True
                continue
            h = HistCtx(ctx, case, i)
            ctx.dist[f"history:valid-call {op['kind']} {'after' if seen_reject else 'before'} a rejected call"] += 1
            # (a) the call inside the history vs the same call on a module instance without history
            try:
                got = plain_call(op, case.get("scribble", True))
            except Exception as e:  # noqa
                h.pred_fail(f"{op['kind']}-raises", f"a valid {op['kind']} call raised {err_name(e)}: {str(e)[:160]}", op,
                            observed=err_name(e), required="a result")
                continue
            ref_mod = fresh_module()
            if ref_mod is not None:
                _MOD[0] = ref_mod
                try:
                    want = plain_call(op, False)
                finally:
                    _MOD[0] = mod
                d = maxdiff(got, want)
                ctx.stat_max("history: call in history vs same call on a fresh module instance (rel)", d / scale(want) if d != float("inf") else 1.0)
                if d > TOL_BATCH * scale(want):
                    h.disagree(f"stateless-{op['kind']}", op, *views(got, want),
                               note=f"the result of a call depends on the calls made before it: it differs from the same call on a fresh "
                                    f"instance of the module by {d:.3g} (model: no state, session_history_independent)")
            # (b) the call inside the history checked like any single call (reference: scikit-image)
            dispatch(h, model, op, with_model=bool(op.get("with_model", False)))
    finally:
        _MOD[0] = old
    ctx.sample({"stream": "history", "ops": [o["what"] if o["kind"] == "reject" else o["kind"] for o in ops]}, limit=9)


def fixed_histories():
    """a FIXED block (the same for every seed and tier) enumerating the class 'a call rejected part-way, then a valid call that
    maps to the same (batch, #angles, padded size, dtype) but reads / writes another detector column range':
    reject kind x geometry transition x batch size, each preceded by nothing (cold) so that the rejected call is the first user
    of whatever state there is, and followed by a second valid call with the geometry of the rejected one."""
    out = []
    rejects = ["iradon-unknown-filter", "iradon-negative-output-size", "iradon-fractional-output-size"]
    # (width, circle) of the rejected call -> (width, circle) of the valid call; all padded to 64, resp. the last one to 128
    transitions = [((14, True), (14, False)), ((14, False), (14, True)), ((14, True), (10, True)), ((10, False), (16, False)),
                   ((20, True), (9, True)), ((30, True), (40, False))]
    names = ["hann", "ramp", "cosine", None, "hamming", "shepp-logan"]
    k = 0
    for what in rejects:
        for (n1, c1), (n2, c2) in transitions:
            for B in (1, 2):
                A = 2 + (k % 2)
                thetas = [[33.0, 101.5], [20.0, 77.25, 140.5]][k % 2]
                for alt in ([31.0, 103.5], [22.0, 79.25, 142.5], [36.5, 98.0], [17.0, 81.0, 137.0]):     # keep clear of the detector ends
                    if len(alt) == A and min(edge_distance(n2, thetas, c2), edge_distance(n1, thetas, c1)) <= 1e-3:
                        thetas = alt

                def valid(n, c, sd):
                    return {"kind": "iradon", "N": n, "A": A, "sino": "random", "seeds": [sd + b for b in range(B)], "thetas": thetas,
                            "filter": names[k % 6], "circle": c, "out": None, "keepdim": B > 1}
                out.append({"kind": "history", "scribble": False, "ops": [
                    {"kind": "reject", "what": what, "N": n1, "A": A, "B": B, "circle": c1, "seed": 100 + k, "name": "hanning",
                     "good_name": names[(k + 1) % 6] or "ramp"},
                    valid(n2, c2, 1000 + 10 * k), valid(n1, c1, 2000 + 10 * k)]})
                k += 1
    return out


def _clear_thetas(N, circle, candidates, out=None):
    """first candidate angle set that keeps every back-projected position clear of the detector ends"""
    for th in candidates:
        if edge_distance(N, th, circle, out) > 1e-3:
            return th
    return None


ANGLE_SETS_G6 = [
    ("has-180", [0.0, 90.0, 180.0]),
    ("right-angles-beyond-180", [0.0, 90.0, 180.0, 270.0, 360.0]),
    ("beyond-180", [200.0, 271.5, 359.0, 450.0]),
    ("negative", [-30.0, -90.5, -179.0, -200.0]),
    ("descending", [170.0, 100.0, 45.5, 10.0]),
    ("unsorted-duplicates", [90.0, 10.0, 170.0, 45.5, 10.0]),
    ("four-quadrants", [30.0, 120.0, 210.0, 300.0]),
    ("mixed-sign-unsorted", [-45.0, 135.0, 45.0, -135.0, 225.0]),
]


def fixed_g6():
    """FIXED blocks of growth round 6 (the same for every seed and tier), one per theme:
    (i) size / count thresholds: detector lengths that are exact powers of two (and one more) after the circle-mode padding x every
        non-ramp filter; batch sizes and numbers of angles above plausible internal chunk sizes (5 .. 33 items, 17 .. 257 angles);
        volumes of 5 .. 33 slices through TomographyConv._sirt_run_epoch, two epochs, inline alignment, smoothing kernel;
    (ii) sign / quadrant / orientation: angle sets with exactly 180, beyond 180 / 360, negative, descending, unsorted with
        duplicates, on images that are not mirror-symmetric, square and H != W both ways, for radon and iradon;
    (iii) performance shortcuts: one process asking for the filters of ONE size under different names in every order of first
        use, the same reconstruction / sinogram repeated, the same size with another angle set / batch size / image afterwards."""
    out = []
    # --- (i) exact powers of two after padding x every non-ramp filter
    k = 0
    for circle, sizes in ((True, [22, 23, 45, 46, 90, 181]), (False, [16, 32, 33, 64, 128])):
        for N in sizes:
            for filt in FILTERS[1:]:
                th = _clear_thetas(N, circle, ([21.5, 111.0], [33.0, 101.5], [17.0, 81.0], [36.5, 98.0])) or [21.5, 111.0]
                out.append({"kind": "iradon", "N": N, "A": 2, "sino": "random", "seeds": [600 + k], "thetas": th, "filter": filt,
                            "circle": circle, "_model": False})
                k += 1
    # --- (i) counts: batch sizes and numbers of angles
    for B in (5, 9, 17, 33):
        out.append({"kind": "radon", "N": 5 + (B % 2), "img": "random", "seeds": [700 + b for b in range(B)], "thetas": [0.0, 37.5, 90.0],
                    "masked": False, "_model": False})
        out.append({"kind": "iradon", "N": 6 + (B % 3), "A": 2, "sino": "random", "seeds": [800 + b for b in range(B)],
                    "thetas": [21.5, 111.0], "filter": FILTERS[B % 5], "circle": True, "_model": B == 5, "batch_model": B == 5})
    for A in (17, 33, 65, 129, 181, 257):
        th = [float(np.float32((i * 180.0 / A + 0.25) % 180.0)) for i in range(A)]
        out.append({"kind": "radon", "N": 4 + (A % 2), "img": "random", "seeds": [900 + A], "thetas": th, "masked": False, "_model": False})
        out.append({"kind": "iradon", "N": 5 + (A % 2), "A": A, "sino": "random", "seeds": [950 + A], "thetas": th, "filter": "hann",
                    "circle": True, "_model": False})
        out.append({"kind": "iradon", "N": 5, "A": A, "sino": "random", "seeds": [960 + A], "thetas": None, "filter": "ramp",
                    "circle": True, "form": "min", "_model": False})
    # --- (i) the user of the port: more slices than one, epochs after the first, alignment / smoothing branches
    for D, ep, inline, gauss in ((5, 1, False, False), (9, 2, False, False), (17, 2, True, False), (33, 1, False, False), (4, 3, True, True), (2, 2, False, True)):
        out.append({"kind": "sirt", "N": 6 + (D % 2), "D": D, "img": "random", "seeds": [1100 + 3 * d for d in range(D)],
                    "thetas": [20.0, 140.0] if inline else [20.0, 75.0, 140.0], "filter": "hann", "layout": "contig" if D % 2 else "permuted",
                    "epochs": ep, "inline": inline, "gauss": gauss})
    # --- (ii) angle sets x non-symmetric images (square odd / even, H > W, H < W), radon and iradon
    k = 0
    for name, th in ANGLE_SETS_G6:
        for N in (7, 8):
            out.append({"kind": "radon", "N": N, "img": "random", "seeds": [1200 + k, 1300 + k][:1 + k % 2], "thetas": th, "masked": False,
                        "_model": (k % 4 == 0)})
            k += 1
        out.append({"kind": "radon-rect", "H": 9, "W": 6, "img": "random", "seed": 1400 + k, "thetas": th, "_model": False})
        out.append({"kind": "radon-rect", "H": 5, "W": 8, "img": "ramp", "seed": 1500 + k, "thetas": th, "_model": False})
        out.append({"kind": "radon-rect", "H": 6 + k % 3, "W": 11 - k % 2, "img": "random", "seed": 1550 + k, "thetas": th, "B": 2 + k % 4,
                    "layout": ["contig", "permuted", "transposed"][k % 3], "_model": False})
        out.append({"kind": "radon-rect", "H": 12 - k % 2, "W": 7 + k % 3, "img": "int", "seed": 1580 + k, "thetas": th, "B": 3 + k % 3, "_model": False})
        for N, circle, filt in ((9, True, "hann"), (10, True, "ramp"), (12, False, "shepp-logan")):
            if edge_distance(N, th, circle) > 1e-3:
                out.append({"kind": "iradon", "N": N, "A": len(th), "sino": "random", "seeds": [1600 + k], "thetas": th, "filter": filt,
                            "circle": circle, "_model": (N == 9 and k % 3 == 0), "via_e": False})
            k += 1
    # --- (iii) one process, one size, different filter names in every order of first use; repeated identical calls
    for first in range(6):
        order = [FILTERS[first]] + [f for j, f in enumerate(FILTERS) if j != first] + [FILTERS[first]]
        out.append({"kind": "history", "scribble": bool(first % 2), "ops":
                    [{"kind": "filter", "size": 64 if first < 4 else 128, "name": nm, "form": "kw", "model": False} for nm in order]})

    def ir(N, filt, circle, sd, th=(33.0, 101.5), B=1):
        return {"kind": "iradon", "N": N, "A": len(th), "sino": "random", "seeds": [sd + b for b in range(B)], "thetas": list(th),
                "filter": filt, "circle": circle, "out": None, "keepdim": B > 1}
    for j, (N, circle) in enumerate(((14, True), (20, False))):
        for first in ("shepp-logan", "hann", None):
            rest = [f for f in FILTERS if f != first]
            ops = [ir(N, first, circle, 1700 + j)] + [ir(N, f, circle, 1700 + j) for f in rest[:3]]
            ops += [ir(N, first, circle, 1700 + j), ir(N, first, circle, 1700 + j),          # the identical reconstruction again, twice
                    ir(N, first, circle, 1750 + j),                                          # same configuration, other data
                    ir(N, first, circle, 1700 + j, th=(101.5, 33.0)),                        # same size, the angle set reversed
                    ir(N, first, circle, 1700 + j, th=(12.0, 58.0)),                         # same size, other angles
                    ir(N, first, circle, 1700 + j, B=2),                                     # same size, other batch size
                    ir(N - 3, first, circle, 1700 + j), ir(N, first, circle, 1700 + j)]      # another size and back
            out.append({"kind": "history", "scribble": bool(j), "ops": ops})

    def ra(N, sd, th, B=1, masked=False):
        return {"kind": "radon", "N": N, "img": "random", "seeds": [sd + b for b in range(B)], "thetas": list(th), "masked": masked,
                "keepdim": B > 1}
    for N in (7, 8):
        out.append({"kind": "history", "scribble": N == 8, "ops": [
            ra(N, 1800, (20.0, 110.0)), ra(N, 1800, (20.0, 110.0)), ra(N, 1801, (20.0, 110.0)), ra(N, 1800, (110.0, 20.0)),
            ra(N, 1800, (65.0, 155.0)), ra(N, 1800, (20.0, 110.0), B=2), ra(N + 2, 1800, (20.0, 110.0)), ra(N, 1800, (20.0, 110.0)),
            {"kind": "radon-rect", "H": N + 3, "W": N, "img": "random", "seed": 1810, "thetas": [20.0, 110.0]},
            {"kind": "radon-rect", "H": N, "W": N + 3, "img": "random", "seed": 1811, "thetas": [20.0, 110.0]},
            ra(N, 1800, (20.0, 110.0))]})
    return out


def observe_fft_input(N, circle):
    """what iradon_torch feeds to its FFT for an all-ones sinogram of width N (public torch.fft entry points wrapped for the
    duration of one call): (P, first index of the data, length of the tensor handed over) — or None when the call does not
    go through torch.fft.fft / rfft with a recognisable 0/1 tensor (then the stream says so and decides nothing)"""
    torch = _torch()
    import torch.fft as tfft
    rec = []
    originals = {nm: getattr(tfft, nm) for nm in ("fft", "rfft")}

    def wrap(orig):
        def w(x, *a, **k):
            try:
                n = k.get("n", a[0] if len(a) > 0 else None)
                dim = k.get("dim", a[1] if len(a) > 1 else -1)
                rec.append((x.detach().clone(), n, dim))
            except Exception:  # noqa
                pass
            return orig(x, *a, **k)
        return w
    for nm, orig in originals.items():
        setattr(tfft, nm, wrap(orig))
    try:
        res = radon_mod().iradon_torch(torch.ones(1, N), theta=torch.tensor([37.0]), output_size=1, filter_name="hann", circle=circle)
    finally:
        for nm, orig in originals.items():
            setattr(tfft, nm, orig)
    for x, n, dim in rec:
        try:
            if not isinstance(dim, int) or x.is_complex():
                continue
            row = x.movedim(dim, -1).reshape(-1, x.shape[dim])[0].double()
            ones = (row == 1.0)
            if int(ones.sum()) != N or not bool(((row == 0.0) | ones).all()):
                continue
            first = int(torch.nonzero(ones)[0])
            if not bool(ones[first:first + N].all()):
                continue
            L = int(row.shape[0])
            return {"P": int(n) if n is not None else L, "first": first, "len": L, "shape": list(res.shape)}
        except Exception:  # noqa
            continue
    return None


def sk_padded_size(D):
    return max(64, int(2 ** np.ceil(np.log2(2 * D))))       # skimage.transform.iradon, verbatim


def geometry_one(ctx, model, N, circle):
    """one width: None = not observable, False = equal, True = different (reported)"""
    try:
        obs = observe_fft_input(N, circle)
    except Exception as e:  # noqa
        ctx.dist[f"geometry:call-raised-{err_name(e)}"] += 1
        obs = None
    if obs is None:
        return None
    g = model.geom(N, circle, 1)
    ctx.count()
    want = {"P": int(g["P"]), "first": int(g["pad_before"])}
    got = {"P": obs["P"], "first": obs["first"]}
    if obs["len"] != obs["P"] and obs["len"] != N:      # the tensor handed over is the diagonal-padded one: D is visible too
        want["D"], got["D"] = int(g["D"]), obs["len"]
    if obs["shape"] != [1, 1]:
        want["shape"], got["shape"] = [1, 1], obs["shape"]
    if want != got:
        ctx.disagree("iradon-geometry", {"kind": "geometry", "N": N, "circle": circle}, want, got,
                     note="integers of the padding steps: model (iradonGeom) vs what the call hands to its FFT")
        return True
    return False


def run_geometry(ctx, model):
    """EXACT internal-stage stream, fixed for every seed and tier: for every detector width 1..370 (circle mode) and 1..520
    (circle=False) the integers the model derives (iradonGeom: diagonal, pad_before, padded size) against what the real call
    hands to its FFT, and the default output size against the shape returned.  A difference is a correspondence disagreement;
    it becomes a predicate failure only through a reconstruction at that width that differs from scikit-image's."""
    if model.drv is None:
        return
    bad, unseen, n = [], 0, 0
    full = ctx.n(0, 1) > 0          # thorough tier: every width; quick tier: a fixed subset (every width up to 80, then every
    #                                 width whose (diagonal-padded) length is within 1 of a power of two or of 1.5 x one, and every 11th)

    def selected(N, circle):
        if full or N <= 80 or N % 11 == 0:
            return True
        D = int(math.ceil(math.sqrt(2) * N)) if circle else N
        return any(abs(D - q) <= 1 for q in (96, 128, 192, 256, 384, 512))
    for circle, top in ((True, 370), (False, 520)):
        for N in range(1, top + 1):
            if not selected(N, circle):
                continue
            r = geometry_one(ctx, model, N, circle)
            if r is None:
                unseen += 1
                continue
            n += 1
            if r:
                bad.append((N, circle))
        for N in range(1, 49):           # default output size (both libraries: N, resp. floor(sqrt(N^2/2)))
            g = model.geom(N, circle, None)
            try:
                shp = list(t_iradon(np.ones((1, N), dtype=np.float32), [37.0], None, circle).shape)
            except Exception as e:  # noqa
                shp = err_name(e)
            ctx.count()
            if shp != [int(g["out"])] * 2:
                ctx.disagree("iradon-geometry-output-size", {"kind": "geometry", "N": N, "circle": circle}, [int(g["out"])] * 2, shp)
    ctx.mark(("geometry", n > 0))
    ctx.dist["geometry:widths-compared-exactly"] += n
    if unseen:
        ctx.dist["geometry:widths-where-the-FFT-input-was-not-observable (nothing decided)"] += unseen
    ctx.extra["geometry stream"] = {"widths compared": n, "not observable": unseen, "differences": len(bad)}
    # a difference in the integers must show in a reconstruction to be a violation of the property
    for N, circle in bad[:3]:
        th = _clear_thetas(N, circle, ([21.5, 111.0], [33.0, 101.5], [17.0, 81.0], [36.5, 98.0])) or [21.5, 111.0]
        for filt in ("hann", None):
            dispatch(ctx, model, {"kind": "iradon", "N": N, "A": 2, "sino": "random", "seeds": [4242], "thetas": th, "filter": filt,
                                  "circle": circle}, with_model=False)


def gen_history(ctx, rng):
    """4-8 calls.  Batch size, number of angles and the padded-size family are drawn once per history and re-used by most
    calls (a stale buffer / cache entry is only visible to a later call that maps to the same key); geometry (width, circle,
    output size), filter and call form vary from call to call."""
    B0, A0 = rng.weighted([(1, 5), (2, 3)]), rng.randint(1, 3)
    big = rng.chance(0.15)          # padded size 128 family instead of 64
    ops = []
    n_ops = rng.randint(4, 8)
    model_budget = 1
    for _ in range(n_ops):
        same = rng.chance(0.8)
        B, A = (B0, A0) if same else (rng.weighted([(1, 5), (2, 3)]), rng.randint(1, 3))
        circle = rng.chance(0.5)
        if big:
            N = rng.randint(23, 45) if circle else rng.randint(33, 48)
        else:
            N = rng.randint(1, 22) if circle else rng.randint(2, 32)
        r = rng.random()
        if r < 0.33:
            what = rng.weighted([("iradon-unknown-filter", 6), ("iradon-theta-length", 2), ("iradon-negative-output-size", 3),
                                 ("iradon-fractional-output-size", 2), ("iradon-bad-ndim", 1), ("radon-integer-image", 2),
                                 ("radon-theta-2d", 2), ("radon-theta-list", 1), ("radon-bad-ndim", 1),
                                 ("filter-odd-size", 1), ("filter-unknown-name", 2), ("filter-size-zero", 1)])
            ops.append({"kind": "reject", "what": what, "N": max(2, min(N, 33)) if what.startswith("radon") else N, "A": A, "B": B,
                        "circle": circle, "seed": rng.next() % 1000, "name": rng.choice([n for n in UNKNOWN_NAMES if isinstance(n, str)]),
                        "good_name": rng.choice(FILTERS[:5]), "size": 128 if big else 64})
        elif r < 0.75:
            c = gen_iradon_case(ctx, rng, False, force={"N": N, "A": A, "B": B, "circle": circle})
            c["layout"] = rng.weighted([("contig", 6), ("transposed", 1), ("f64", 1)])
            if model_budget > 0 and c["N"] <= 12 and c["A"] <= 2 and ops and rng.chance(0.5):
                c["with_model"], c["via_e"] = True, rng.chance(0.5)
                model_budget -= 1
            ops.append(c)
        elif r < 0.9:
            c = gen_radon_case(rng, False)
            c["N"] = max(2, min(N, 24))
            c["thetas"] = make_thetas(rng, A)
            c["seeds"] = c["seeds"][:B] + [rng.next() % (1 << 30) for _ in range(B - len(c["seeds"]))]
            ops.append(c)
        else:
            ops.append({"kind": "filter", "size": rng.choice([64, 128, 64, 128, 256, 2 * rng.randint(1, 40)]), "name": rng.choice(FILTERS),
                        "form": rng.choice(FORMS), "model": False})
    if rng.chance(0.3) and any(o["kind"] != "reject" for o in ops):      # the same valid call again (a cache-hit path)
        ops.append(dict(rng.choice([o for o in ops if o["kind"] != "reject"])))
    return {"kind": "history", "ops": ops, "scribble": rng.chance(0.7)}


# ----------------------------------------------------------------------------------------------

def gen_size(rng):
    return rng.weighted([(rng.randint(2, 4), 1), (rng.randint(5, 33), 10), (rng.choice([8, 16, 24, 32, 23, 25, 22, 33]), 3)])


def gen_radon_case(rng, model_cost=True):
    N = gen_size(rng)
    A = rng.randint(1, 4 if model_cost else 8)
    B = rng.weighted([(1, 4), (2, 4), (3, 2)])
    return {"kind": "radon", "N": N, "img": rng.choice(IMG_KINDS), "seeds": [rng.next() % (1 << 30) for _ in range(B)],
            "thetas": make_thetas(rng, A), "masked": rng.chance(0.5), "batch_model": rng.chance(0.5),
            "layout": rng.weighted([("contig", 4), ("transposed", 2), ("permuted", 2), ("strided", 1), ("f64", 1), ("f64-transposed", 1)]),
            "theta_layout": rng.weighted([("f32", 6), ("f64", 1), ("strided", 1), ("i64", 1)]), "keepdim": rng.chance(0.5),
            "form": rng.weighted([("kw", 3), ("min", 1), ("pos", 1)]), "device": rng.weighted([(None, 4), ("cpu", 1), ("torch.device", 1)]),
            "coef": [float(rng.choice([2.0, -1.0, 0.5, 3.0])), float(rng.choice([-0.5, 1.0, 4.0, -2.0]))]}


def gen_iradon_case(ctx, rng, model_cost=True, force=None):
    force = force or {}
    N = gen_size(rng) if not rng.chance(0.03) else 1          # a one-pixel detector is a valid (degenerate) sinogram
    if model_cost and N > 22 and rng.chance(0.6):
        N = rng.randint(5, 22)      # padded size 128 is ~4x the model cost; keep most model cases at 64
    A = rng.randint(1, 3 if model_cost else 8)
    B = rng.weighted([(1, 5), (2, 3), (3, 1)])
    circle = rng.chance(0.7)
    N, A, B, circle = force.get("N", N), force.get("A", A), force.get("B", B), force.get("circle", circle)
    default_theta = rng.chance(0.12)
    # optional argument of the skimage-compatible interface: explicit output_size (smaller, equal, larger than the width)
    out = rng.weighted([(None, 5), (N, 1), (max(1, N - rng.randint(1, 6)), 2), (N + rng.randint(1, 8), 2), (2 * N, 1), (0, 0.25)])
    rejected = False
    thetas = None
    for k in range(40):
        thetas = None if default_theta else (make_thetas(rng, A) if k < 20 else [float(np.float32(rng.uniform(1.0, 179.0))) for _ in range(A)])
        eff = thetas if thetas is not None else list(np.arange(A) * 180.0 / A)
        if edge_distance(N, eff, circle, out) > 1e-4:
            break
        rejected = True
        if default_theta:                      # the default angle set cannot be re-drawn: fall back to the default geometry, then to given angles
            if out is not None or not circle:
                out, circle = None, True
            else:
                default_theta = False
    else:
        out, circle = None, True
        ctx.dist["iradon:case-switched-to-default-circle"] += 1
    if rejected:
        ctx.dist["iradon:cases-with-angle-set-redrawn-near-detector-end"] += 1
    return {"kind": "iradon", "N": N, "A": A, "sino": rng.choice(SINO_KINDS), "seeds": [rng.next() % (1 << 30) for _ in range(B)],
            "thetas": thetas, "filter": rng.choice(FILTERS), "circle": circle, "out": out,
            "layout": rng.weighted([("contig", 5), ("transposed", 2), ("permuted", 1), ("strided", 1), ("f64", 1), ("f64-transposed", 1)]),
            "theta_layout": rng.weighted([("f32", 6), ("f64", 1), ("strided", 1), ("i64", 1)]), "keepdim": rng.chance(0.5),
            "form": rng.weighted([("kw", 3), ("min", 2), ("pos", 1)]), "device": rng.weighted([(None, 4), ("cpu", 1), ("torch.device", 1)]),
            "via_e": rng.chance(0.5), "batch_model": rng.chance(0.6),
            "coef": [float(rng.choice([2.0, -1.0, 0.5, 3.0])), float(rng.choice([-0.5, 1.0, 4.0, -2.0]))]}


def gen_filter_case(rng):
    size = rng.weighted([(rng.choice([64, 128, 256]), 4), (2 * rng.randint(1, 48), 4), (rng.choice([2, 4, 6, 8, 10, 14]), 1), (2 * rng.randint(0, 20) + 1, 1),
                         (0, 0.2)])
    name = rng.choice(FILTERS) if not rng.chance(0.06) else rng.choice(UNKNOWN_NAMES)
    return {"kind": "filter", "size": size, "name": name, "form": rng.weighted([("kw", 3), ("min", 2), ("pos", 1)]),
            "device": rng.weighted([(None, 4), ("cpu", 1), ("torch.device", 1)]), "dtype": rng.weighted([(None, 5), ("float32", 1), ("float64", 2)])}


def gen_rect_case(rng, model_cost=True):
    """image shape H x W: tall / wide / square, even and odd excess over the shorter side, even and odd crops; given angles or the
    default 180 (small images then: 180 angles)"""
    default_theta = rng.chance(0.25)
    hi = 8 if (default_theta and model_cost) else (14 if model_cost else 24)
    N = rng.randint(2, hi)
    e = rng.weighted([(0, 2), (1, 3), (2, 2), (3, 2), (rng.randint(4, 9), 2)])
    H, W = (N + e, N) if rng.chance(0.5) else (N, N + e)
    return {"kind": "radon-rect", "H": H, "W": W, "img": rng.choice(["random", "int", "ones", "ramp"]), "seed": rng.next() % (1 << 30),
            "thetas": None if default_theta else make_thetas(rng, rng.randint(1, 3 if model_cost else 6)),
            "theta_layout": rng.weighted([("f32", 5), ("f64", 1), ("i64", 1)]),
            "form": rng.weighted([("kw", 2), ("min", 2), ("pos", 1)]), "device": rng.weighted([(None, 4), ("cpu", 1)])}


def dispatch(ctx, model, case, with_model=True):
    k = case["kind"]
    if k == "radon":
        case_radon(ctx, model, case, with_model)
    elif k == "proj0":
        case_proj0(ctx, model, case)
    elif k == "filter":
        case_filter(ctx, model, case)
    elif k == "iradon":
        case_iradon(ctx, model, case, with_model)
    elif k == "iradon-malformed":
        case_iradon_errors(ctx, model, case)
    elif k == "sirt":
        case_sirt(ctx, model, case)
    elif k == "radon-rect":
        case_radon_rect(ctx, model, case, with_model)
    elif k == "history":
        case_history(ctx, model, case)
    elif k == "geometry":
        if model.drv is not None:
            geometry_one(ctx, model, case["N"], case["circle"])
    else:
        raise ValueError(k)


# literal witnesses of the `_counterexample` / legacy theorems in Props/C07.lean, replayed on the implementation every run
WITNESSES = [
    # legacy rotation convention: even N, a pixel in row 0 of the disc (0, N/2) is dropped at 0 degrees
    {"kind": "proj0", "N": 4, "seed": 7, "img": "disc", "masked": True},
    {"kind": "proj0", "N": 16, "seed": 7, "img": "disc", "masked": True},
    {"kind": "radon", "N": 16, "img": "disc", "seeds": [1], "thetas": [0.0, 90.0, 37.0], "masked": True},
    # legacy cosine window: size 64 (and the smallest even sizes)
    {"kind": "filter", "size": 64, "name": "cosine"},
    {"kind": "filter", "size": 2, "name": "cosine"},
    {"kind": "filter", "size": 4, "name": "cosine"},
    # sizes with size % 4 == 2 (shared quirk of the n array) and odd sizes (error branch; size 1: skimage returns [0.5], the port rejects)
    {"kind": "filter", "size": 6, "name": "ramp"},
    {"kind": "filter", "size": 10, "name": "hann"},
    {"kind": "filter", "size": 1, "name": "ramp"},
    {"kind": "filter", "size": 1, "name": "hamming"},     # np.hamming(1) == ones(1)
    {"kind": "filter", "size": 1, "name": "hann"},
    {"kind": "filter", "size": 1, "name": "cosine"},
    {"kind": "filter", "size": 1, "name": "shepp-logan"},
    {"kind": "filter", "size": 1, "name": None},
    {"kind": "filter", "size": 3, "name": "ramp"},
    {"kind": "filter", "size": 7, "name": "hamming"},
    # legacy interpolant: extrapolation beyond the detector end (circle=False, N = 10, 45 degrees: corner pixels reach t_idx > N-1)
    {"kind": "iradon", "N": 10, "A": 1, "sino": "edge", "seeds": [3], "thetas": [45.0], "filter": None, "circle": False},
    # no circle-to-square padding: even N (detector end) and N in 23..32 (padded filter size 64 instead of 128)
    {"kind": "iradon", "N": 8, "A": 2, "sino": "edge", "seeds": [3], "thetas": [30.0, 75.0], "filter": None, "circle": True},
    {"kind": "iradon", "N": 25, "A": 2, "sino": "random", "seeds": [3], "thetas": [20.0, 110.0], "filter": "hann", "circle": True},
    # memory layout x dtype classes: transposed / batch-permuted views of images that are non-zero outside the disc, float64
    {"kind": "proj0", "N": 9, "seed": 11, "img": "int", "masked": False, "layout": "transposed"},
    {"kind": "proj0", "N": 8, "seed": 12, "img": "int", "masked": False, "layout": "f64-transposed"},
    {"kind": "radon", "N": 12, "img": "random", "seeds": [21, 22], "thetas": [0.0, 33.0, 90.0], "masked": False, "layout": "permuted"},
    {"kind": "radon", "N": 11, "img": "random", "seeds": [23], "thetas": [14.0, 120.0], "masked": False, "layout": "transposed", "theta_layout": "f64"},
    {"kind": "sirt", "N": 10, "D": 3, "img": "random", "seeds": [31, 32, 33], "thetas": [20.0, 75.0, 140.0], "filter": "hann", "layout": "permuted"},
    # explicit output_size (circle mask radius = output_size // 2, grid centre output_size // 2)
    {"kind": "iradon", "N": 16, "A": 3, "sino": "random", "seeds": [41], "thetas": [21.5, 68.0, 128.75], "filter": "ramp", "circle": True, "out": 11},
    {"kind": "iradon", "N": 16, "A": 3, "sino": "random", "seeds": [42], "thetas": [21.5, 68.0, 128.75], "filter": None, "circle": True, "out": 22},
    {"kind": "iradon", "N": 10, "A": 2, "sino": "random", "seeds": [43], "thetas": [33.0, 101.5], "filter": "hann", "circle": False, "out": 16,
     "layout": "transposed"},
    # default angle set
    {"kind": "iradon", "N": 9, "A": 4, "sino": "random", "seeds": [5], "thetas": None, "filter": "ramp", "circle": True},
    # growth 5 -- filter_size_zero_counterexample (port: RuntimeError in torch.arange, scikit-image: IndexError), unknown names
    {"kind": "filter", "size": 0, "name": "ramp"},
    {"kind": "filter", "size": 0, "name": None},
    {"kind": "filter", "size": 8, "name": "hanning"},
    {"kind": "filter", "size": 8, "name": "none"},
    {"kind": "filter", "size": 64, "name": "hamming", "form": "pos", "dtype": "float64"},
    {"kind": "filter", "size": 64, "name": "ramp", "form": "min"},
    # crop_mask_centre_counterexample: 7 x 4 (odd excess, even crop: the disc centre is one pixel before the rotation centre), and the
    # other excess / parity classes; the default angle set of radon
    {"kind": "radon-rect", "H": 7, "W": 4, "img": "int", "seed": 3, "thetas": [0.0, 33.0, 90.0]},
    {"kind": "radon-rect", "H": 4, "W": 7, "img": "random", "seed": 4, "thetas": [0.0, 120.5]},
    {"kind": "radon-rect", "H": 9, "W": 5, "img": "random", "seed": 5, "thetas": [45.0], "form": "pos"},
    {"kind": "radon-rect", "H": 6, "W": 9, "img": "ramp", "seed": 6, "thetas": [10.0, 170.0]},
    {"kind": "radon-rect", "H": 5, "W": 5, "img": "random", "seed": 7, "thetas": None, "form": "min"},
    {"kind": "radon-rect", "H": 3, "W": 2, "img": "int", "seed": 8, "thetas": None},
    # a one-pixel detector, an empty reconstruction
    {"kind": "iradon", "N": 1, "A": 3, "sino": "int", "seeds": [9], "thetas": [10.0, 50.0, 100.0], "filter": "hann", "circle": True, "via_e": True},
    {"kind": "iradon", "N": 6, "A": 2, "sino": "int", "seeds": [10], "thetas": [10.0, 50.0], "filter": "ramp", "circle": True, "out": 0, "via_e": True},
    # every argument left at its default / passed positionally
    {"kind": "iradon", "N": 10, "A": 3, "sino": "random", "seeds": [11], "thetas": None, "filter": "ramp", "circle": True, "form": "min"},
    {"kind": "iradon", "N": 10, "A": 2, "sino": "random", "seeds": [12], "thetas": [15.0, 95.0], "filter": "cosine", "circle": False, "out": 9, "form": "pos",
     "device": "cpu"},
    # seed-independent witnesses of input classes that earlier seeded changes needed (so far covered by random draws only):
    # 2*D an exact power of two with a windowed filter (image 22 / 45 in circle mode, width 32 without), an angle set containing
    # exactly 180 with an even and an odd size, the default angle set with a number of projections that does not divide 180
    {"kind": "iradon", "N": 22, "A": 2, "sino": "random", "seeds": [51], "thetas": [21.5, 111.0], "filter": "hann", "circle": True},
    {"kind": "iradon", "N": 32, "A": 2, "sino": "random", "seeds": [52], "thetas": [21.5, 111.0], "filter": "hamming", "circle": False},
    {"kind": "iradon", "N": 45, "A": 1, "sino": "random", "seeds": [53], "thetas": [63.0], "filter": "cosine", "circle": True},
    {"kind": "radon", "N": 16, "img": "random", "seeds": [54], "thetas": [180.0, 0.0], "masked": False},
    {"kind": "radon", "N": 7, "img": "random", "seeds": [55], "thetas": [180.0], "masked": False},
    {"kind": "iradon", "N": 9, "A": 7, "sino": "random", "seeds": [56], "thetas": None, "filter": "ramp", "circle": True, "form": "min"},
    {"kind": "iradon", "N": 12, "A": 8, "sino": "random", "seeds": [57], "thetas": None, "filter": "hann", "circle": True},
    # session_agree: rejected calls (unknown filter after the padding step, bad output size after the filtering step) between valid
    # calls that share batch size, number of angles and padded size but not the detector column range
    {"kind": "history", "scribble": True, "ops": [
        {"kind": "filter", "size": 64, "name": "hann", "form": "kw", "model": False},
        {"kind": "reject", "what": "iradon-unknown-filter", "N": 14, "A": 2, "B": 1, "circle": True, "seed": 5, "name": "hanning"},
        {"kind": "iradon", "N": 14, "A": 2, "sino": "random", "seeds": [77], "thetas": [33.0, 101.5], "filter": "hann", "circle": False, "out": None},
        {"kind": "reject", "what": "iradon-negative-output-size", "N": 9, "A": 2, "B": 1, "circle": False, "seed": 6, "good_name": "cosine"},
        {"kind": "reject", "what": "radon-theta-2d", "N": 9, "A": 2, "B": 1, "seed": 7},
        {"kind": "iradon", "N": 12, "A": 2, "sino": "random", "seeds": [78], "thetas": [20.0, 110.0], "filter": "ramp", "circle": True, "out": None,
         "with_model": True, "via_e": True},
        {"kind": "radon", "N": 9, "img": "random", "seeds": [79], "thetas": [20.0, 110.0], "masked": False},
        {"kind": "filter", "size": 64, "name": "hann", "form": "kw", "model": False}]},
]


def run(ctx):
    _torch().set_num_threads(min(4, int(os.environ.get("OMP_NUM_THREADS", "4") or 4)))
    model = Model()
    try:
        for w in WITNESSES:
            ctx.dist["witness-cases"] += 1
            dispatch(ctx, model, dict(w), with_model=True)
        # --- theta = 0 exact stream
        for i in range(ctx.n(40, 300)):
            rng = ctx.rng.fork(1000 + i)
            dispatch(ctx, model, {"kind": "proj0", "N": gen_size(rng), "seed": rng.next() % (1 << 30),
                                  "img": rng.choice(["int", "delta", "rim", "disc"]), "masked": rng.chance(0.4),
                                  "layout": rng.choice(["contig", "transposed", "strided", "f64", "f64-transposed"])})
        # --- filters (all six names x sizes)
        for i in range(ctx.n(120, 800)):
            rng = ctx.rng.fork(2000 + i)
            c = gen_filter_case(rng)
            c["model"] = c["size"] <= 128 or rng.chance(0.25)
            dispatch(ctx, model, c)
        # --- radon: three-way cases
        for i in range(ctx.n(80, 900)):
            rng = ctx.rng.fork(3000 + i)
            dispatch(ctx, model, gen_radon_case(rng, True), True)
        # --- radon: predicate-only cases (more angles, no model cost)
        for i in range(ctx.n(150, 2000)):
            rng = ctx.rng.fork(4000 + i)
            dispatch(ctx, model, gen_radon_case(rng, False), False)
        # --- iradon: three-way
        for i in range(ctx.n(70, 800)):
            rng = ctx.rng.fork(5000 + i)
            dispatch(ctx, model, gen_iradon_case(ctx, rng, True), True)
        # --- iradon: predicate-only
        for i in range(ctx.n(200, 2500)):
            rng = ctx.rng.fork(6000 + i)
            dispatch(ctx, model, gen_iradon_case(ctx, rng, False), False)
        # --- the user of the port: forward projection inside TomographyConv._sirt_run_epoch
        for i in range(ctx.n(8, 60)):
            rng = ctx.rng.fork(8000 + i)
            D = rng.randint(1, 3)
            dispatch(ctx, model, {"kind": "sirt", "N": gen_size(rng), "D": D, "img": rng.choice(IMG_KINDS),
                                  "layout": rng.choice(["contig", "permuted", "transposed"]),
                                  "seeds": [rng.next() % (1 << 30) for _ in range(D)], "thetas": make_thetas(rng, rng.randint(1, 6)),
                                  "filter": rng.choice(FILTERS[:5])})
        # --- malformed calls: outcome classes, port vs scikit-image vs both models
        for i in range(ctx.n(14, 80)):
            rng = ctx.rng.fork(7000 + i)
            dispatch(ctx, model, {"kind": "iradon-malformed", "N": rng.randint(1, 12), "A": rng.randint(1, 4),
                                  "what": rng.choice(["theta-length", "unknown-filter"]), "delta": rng.choice([1, -1, 2]),
                                  "name": rng.choice(UNKNOWN_NAMES), "good_name": rng.choice(FILTERS), "circle": rng.chance(0.6),
                                  "out": rng.choice([None, None, 5]), "default_theta": rng.chance(0.3)})
        # --- images of any shape (mask on the full grid, crop to the inscribed square) and the default angle set
        for i in range(ctx.n(36, 300)):
            rng = ctx.rng.fork(9000 + i)
            dispatch(ctx, model, gen_rect_case(rng, True), True)
        for i in range(ctx.n(40, 500)):
            rng = ctx.rng.fork(9500 + i)
            dispatch(ctx, model, gen_rect_case(rng, False), False)
        # --- histories of calls in one process (valid, rejected part-way, caller overwrites what it was handed)
        if not ctx.search_mode:
            for hcase in fixed_histories():      # enumerated class, independent of seed and tier
                ctx.dist["history:fixed-block"] += 1
                dispatch(ctx, model, hcase)
        if not ctx.search_mode:
            run_geometry(ctx, model)
        # --- growth round 6: fixed blocks (thresholds / exact multiples, sign / orientation of the angle set, repeated and re-keyed calls)
        if not ctx.search_mode:
            for gcase in fixed_g6():
                gcase = dict(gcase)
                ctx.dist["g6-fixed-block:" + gcase["kind"]] += 1
                dispatch(ctx, model, gcase, with_model=bool(gcase.pop("_model", True)))
        for i in range(ctx.n(45, 450)):
            rng = ctx.rng.fork(10000 + i)
            dispatch(ctx, model, gen_history(ctx, rng))
    finally:
        model.close()
    try:
        import inspect
        m = radon_mod()
        ctx.extra["signatures (recorded; defaults and argument order are exercised by the call-form draws)"] = {
            fn: str(inspect.signature(getattr(m, fn))) for fn in ("radon_torch", "iradon_torch", "get_fourier_filter_torch")}
    except Exception:  # noqa
        pass
    ctx.extra["tolerances"] = {"model-vs-torch (float32 rule)": TOL32, "model-vs-skimage (float64)": TOL64, "torch-vs-skimage": TOL_PRED,
                               "filter torch-vs-skimage": TOL_FILTER, "batched-vs-single": TOL_BATCH, "linearity": TOL_LIN,
                               "rule": "|a-b| <= tol*max(1,max|reference|)"}


def replay(ctx, rep):
    case = rep.get("case")
    if case is None:
        ds = rep.get("correspondence_disagreements") or rep.get("disagreements") or []
        case = ds[0]["case"] if ds else None
    if case is None:
        return True
    case = {k: v for k, v in case.items() if k not in ("image_index", "sino_index", "stream", "slice", "at", "epoch", "_model")}
    model = Model()
    try:
        dispatch(ctx, model, case, True)
    finally:
        model.close()
    return True
