"""C14 extensions (own file: ser_common.py / ser_classes.py are shared with C01 / C08).

* classes whose CLASS provides names (defaults, a method, a read-only property) that instance
  attributes and skip names may coincide with;
* the type universe extended by abstract base classes with virtual subclasses and by `object`;
* an attribute that cannot be pickled (a save that raises part-way) and HISTORIES of save / load
  calls on the same live objects, with rejected and failing calls in between;
* the `skip` argument in its call forms (bare name / bare type / list / tuple, entries that are
  neither str nor type), load-time type skipping, and the stored tree + recorded skip lists as an
  internal stage of the tie;
* the live `isinstance` oracle (Python itself decides what "is an instance of a listed type" means).
"""
import collections
import collections.abc
import contextlib
import io
import json
import numbers
import os
import pathlib
import shutil

from quantem.core.io.serialize import AutoSerialize

from . import ser_classes
from . import ser_common as sc


class SD(AutoSerialize):
    """the class itself provides `count`, `note`, `cfg` (defaults), `gain` (a method) and `total`
    (a read-only property)"""
    count = 0
    note = "dflt"
    cfg = None

    def gain(self):
        return 1.0

    @property
    def total(self):
        return 1


try:
    import attrs as _attrs

    @_attrs.define(slots=False, eq=False)
    class AT(AutoSerialize):
        """an attrs class (`__attrs_attrs__`): only the declared fields are items of `_recursive_save`; instance
        attributes that are no fields are never written, with or without skip lists"""
        count: object = 0
        raw: object = None
        child: object = None
        note: object = "n"
        w: object = None
    ATTRS_FIELDS = [["AT", [f.name for f in AT.__attrs_attrs__]]]
except Exception:  # noqa  (attrs not installed: the attrs stream is skipped with a note)
    AT = None
    ATTRS_FIELDS = []


CLASS_LEVEL_NAMES = ["count", "note", "cfg", "gain", "total", "save", "print_tree"]
CLASSES = dict(ser_classes.CLASSES, SD=SD, **({'AT': AT} if AT is not None else {}))


class Unpicklable:
    """a live resource (lock, database handle, generator …): `dill.dumps` raises TypeError"""

    def __reduce_ex__(self, protocol):
        raise TypeError("cannot pickle 'Unpicklable' object")


POISON_SPEC = ["fb", "unpicklable", 0]
_MARK = ["mk_fb", "bytes", "deadbeef00c14e"]
_MARK_SPEC = ["fb", "bytes", sc.tok_of(["bytes", "deadbeef00c14e"])]

XTYPES = {
    "Number": numbers.Number, "Real": numbers.Real, "Integral": numbers.Integral,
    "Mapping": collections.abc.Mapping, "Sequence": collections.abc.Sequence, "Sized": collections.abc.Sized,
    "Hashable": collections.abc.Hashable, "PathLike": os.PathLike, "object": object, "unpicklable": Unpicklable,
}
ABC_NAMES = ["Number", "Real", "Integral", "Mapping", "Sequence", "Sized", "Hashable", "PathLike", "object"]


class XBuilder(sc.Builder):
    def build(self, r):
        if r[0] == "obj":
            cls = CLASSES[r[1]]
            o = cls.__new__(cls)
            for k, e in r[2]:
                setattr(o, k, self.build(e))
            return o
        if r[0] == "poison":
            return (i for i in ()) if r[1] == "gen" else Unpicklable()
        return super().build(r)


def _replace(x, old, new):
    if x == old:
        return new
    if isinstance(x, list):
        return [_replace(e, old, new) for e in x]
    return x


def _has_poison(recipe):
    return isinstance(recipe, list) and (recipe[:1] == ["poison"] or any(_has_poison(e) for e in recipe))


def spec_of(recipe):
    """Val JSON of the object a recipe builds (poison values become the model's unpicklable token)"""
    if not _has_poison(recipe):
        return sc.observe(XBuilder(None).build(recipe))
    r = json.loads(json.dumps(recipe))

    def sub(x):
        if isinstance(x, list):
            if x[:1] == ["poison"]:
                return _MARK
            return [sub(e) for e in x]
        return x
    return _replace(sc.observe(XBuilder(None).build(sub(r))), _MARK_SPEC, POISON_SPEC)


def contains_poison(spec):
    return isinstance(spec, list) and (spec == POISON_SPEC or any(contains_poison(e) for e in spec))


# ---- the skip argument -----------------------------------------------------------------------
def arg_items(arg):
    if "bare_name" in arg:
        return [["n", arg["bare_name"]]]
    if "bare_type" in arg:
        return [["t", arg["bare_type"]]]
    return arg.get("seq", [])


def arg_names(arg):
    return [x[1] for x in arg_items(arg) if x[0] == "n"]


def arg_types(arg):
    return [x[1] for x in arg_items(arg) if x[0] == "t"]


def py_arg(arg, types, form="list"):
    """the Python value of a skip argument"""
    if "bare_name" in arg:
        return arg["bare_name"]
    if "bare_type" in arg:
        return types[arg["bare_type"]]
    items = [x[1] if x[0] == "n" else (types[x[1]] if x[0] == "t" else None) for x in arg.get("seq", [])]
    if form == "seqsub":
        return SeqForm(items)
    if form == "listsub":
        return ListForm(items)
    if form == "deque":
        return collections.deque(items)
    return tuple(items) if form == "tuple" else items


class SeqForm(collections.abc.Sequence):
    """a `Sequence[str | type]` that is neither a list nor a tuple (what the signature of save()/load() declares)"""

    def __init__(self, items):
        self._items = tuple(items)

    def __getitem__(self, i):
        return self._items[i]

    def __len__(self):
        return len(self._items)

    def __repr__(self):
        return f"SeqForm({list(self._items)!r})"


class ListForm(list):
    """a list subclass"""


def make_arg(rng, names, types, junk=False):
    """a skip argument holding exactly these names and types: bare form when there is a single
    entry (sometimes), otherwise a shuffled sequence, rarely with an entry that is neither"""
    items = [["n", n] for n in names] + [["t", t] for t in types]
    if len(items) == 1 and rng.chance(0.4):
        return {"bare_name": items[0][1]} if items[0][0] == "n" else {"bare_type": items[0][1]}
    rng.shuffle(items)
    if junk:
        items.insert(rng.randint(0, len(items)), ["o"])
    return {"seq": items}


# ---- oracles -----------------------------------------------------------------------------------
def strip_live(obj, names, pytypes):
    """the graph the property requires, computed on the LIVE object with Python's own isinstance"""
    out = []
    fields = getattr(type(obj), "__attrs_attrs__", None)
    fields = None if fields is None else {f.name for f in fields}
    for k, v in vars(obj).items():
        if fields is not None and k not in fields:
            continue        # an attrs class: what is no declared field is never written, with or without skipping
        if k in names or (pytypes and isinstance(v, tuple(pytypes))):
            continue
        if isinstance(v, AutoSerialize):
            out.append([k, strip_live(v, names, pytypes)])
        else:
            out.append([k, sc.observe(v)])      # an unpicklable value shows as ["unknown", …] (see has_unknown)
    return ["obj", type(obj).__name__, out]


def has_unknown(spec):
    if isinstance(spec, list):
        if spec[:1] == ["unknown"] or spec == POISON_SPEC:
            return True
        return any(has_unknown(e) for e in spec)
    return False


# ---- the stored tree (an internal stage of the tie) ---------------------------------------------
def store_summary(path, type_tags, tree=True):
    """recorded skip lists + per object group the user-level keys with their namespace"""
    import tempfile
    import zarr
    from zarr.storage import LocalStore
    from zipfile import ZipFile
    tmp = None
    try:
        if os.path.isdir(path):
            root = zarr.open_group(store=LocalStore(path), mode="r")
        else:
            tmp = tempfile.mkdtemp(dir=os.path.dirname(path))
            with ZipFile(path, "r") as zf:
                zf.extractall(tmp)
            root = zarr.open_group(store=LocalStore(tmp), mode="r")

        def walk(g):
            meta = g.attrs.get("_autoserialize")
            if meta is None:
                return None
            ents = []
            for k in g.attrs.keys():
                if k.startswith("_autoserialize") or k.endswith(".is_path") or k.endswith(".torch_save"):
                    continue
                ents.append([k, "attr", None])
            for k in g.array_keys():
                ents.append([k, "array", None])
            for k in g.group_keys():
                ents.append([k, "group", walk(g[k])])
            return ["obj", meta["class_name"], sorted(ents, key=lambda e: e[0])]
        rev = {f"{t.__module__}.{t.__qualname__}": tag for tag, t in type_tags.items()}
        return {"names": sorted(root.attrs.get("_autoserialize_skip_names", [])),
                "types": [rev.get(t, t) for t in root.attrs.get("_autoserialize_skip_types", [])],
                "tree": walk(root) if tree else None}
    finally:
        if tmp:
            shutil.rmtree(tmp, ignore_errors=True)


def canon_summary(s):
    def tree(t):
        if t is None:
            return None
        return ["obj", t[1], sorted(([k, ns, tree(sub)] for k, ns, sub in t[2]), key=lambda e: e[0])]
    return {"names": sorted(set(s["names"])), "types": list(s["types"]), "tree": tree(s["tree"])}


@contextlib.contextmanager
def quiet():
    with contextlib.redirect_stdout(io.StringIO()):
        yield


# ---- growth round 6: a fixed deep tree ---------------------------------------------------------
def deep_tree(raw_at_root=False):
    """root(SA).stage(SB).frame(SA).inner(SB): `raw` sits two and three levels below objects that LACK it
    (root and stage carry no `raw`; with raw_at_root the root has one, stage and frame have none and it
    re-appears three levels down); names that are prefixes of each other (`w`/`we`/`wei`/`weight`/`weights`,
    `ra`/`raw`/`raw_data`/`_raw`); a bool next to ints, an np.float64 next to floats; containers with 12
    elements (a mixed list, an all-int list that takes the ndarray fast path, a dict)"""
    S = sc.S
    nd = ["nd", "float64", [2], [S(0.5), S(1.5)], "C"]
    big = ["list", [["scalar", S("s%d" % i)] if i % 2 else ["scalar", S(i)] for i in range(12)]]
    nums = ["list", [["scalar", S(i * 3)] for i in range(12)]]
    table = ["dict", [["k%d" % i, ["scalar", S(i)]] for i in range(12)]]
    inner = ["obj", "SB", [["raw", ["scalar", S(7)]], ["keep", ["scalar", S("k")]], ["raw_data", nd], ["flag", ["scalar", S(True)]],
                           ["weight", ["np", "float64", S(2.5)]]]]
    frame = ["obj", "SA", [["weight", ["np", "float64", S(1.5)]], ["inner", inner], ["big", big], ["nums", nums], ["table", table],
                           ["n", ["scalar", S(3)]]]]
    if not raw_at_root:
        frame[2].insert(0, ["raw", nd])
    stage = ["obj", "SB", [["w", ["scalar", S(0.25)]], ["we", ["scalar", S(True)]], ["weights", ["list", [["scalar", S(1.5)], ["scalar", S(2.5)]]]],
                           ["frame", frame], ["ra", ["scalar", S("x")]]]]
    root = ["obj", "SA", [["gain", ["scalar", S(1)]], ["stage", stage], ["wei", ["scalar", S(3)]], ["_raw", ["scalar", S("s")]]]]
    if raw_at_root:
        root[2].insert(1, ["raw", ["scalar", S(5)]])
    return root


def attrs_tree(variant=0):
    """attrs-class objects (every declared field set) at the root, in the middle and at the bottom of an attribute-nested
    graph, with plain classes in between; instance attributes that are no fields (`scratch`, `tmp`); `raw` at several
    levels, a bool `count` next to int ones"""
    S = sc.S
    nd = ["nd", "float64", [2], [S(0.5), S(1.5)], "C"]
    bottom = ["obj", "AT", [["count", ["scalar", S(True)]], ["raw", ["scalar", S(4)]], ["child", ["scalar", S(None)]], ["note", ["scalar", S("b")]],
                            ["w", ["np", "float64", S(2.5)]], ["tmp", ["scalar", S(0)]]]]
    mid = ["obj", "SB", [["raw", nd], ["deep", bottom], ["gain", ["scalar", S(2)]], ["lst", ["list", [["scalar", S("a")], ["scalar", S(1)]]]]]]
    if variant == 1:
        mid = ["obj", "AT", [["count", ["scalar", S(2)]], ["raw", nd], ["child", ["obj", "SD", [["deep", bottom], ["count", ["scalar", S(9)]]]]],
                             ["note", ["scalar", S("m")]], ["w", ["scalar", S(0.5)]]]]
    return ["obj", "AT", [["count", ["scalar", S(3)]], ["raw", ["scalar", S(1)]], ["scratch", ["scalar", S(99)]], ["child", mid],
                          ["note", ["scalar", S("r")]], ["w", ["mk_tensor", "float32", [2], False, False, [1.5, 0.25]]]]]
