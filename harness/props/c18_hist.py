"""C18 — histories on the two objects that HOLD centre-of-mass state (helper module of c18.py).

  omhist  CenterOfMassOriginModel: calculate_origin / origin_measured= / origin_fitted= / fit_origin_background /
          shift_origin_to / tensor= / forward in generated orders, INCLUDING calls that are rejected (wrong row count,
          odd element count, complex or string data, unknown fit method, probe positions of the wrong length, batch
          size 0, fitting before measuring, shifting before fitting).  Three judges after every call:
            twin     the same history WITHOUT the rejected calls on a second object: the result of every accepted call
                     must be bit-identical (a rejected call must not be used by a later valid call)
            oracle   the property on the result of the accepted call (exact weighted mean, mean / plane of the measured
                     origins that a valid call stored, circular roll by the integer origins that a valid call stored)
            model    Model/OriginState.lean `omStep` run on the same history at Rat: accepted / rejected, and the whole
                     state (origin_measured, origin_fitted, shifted_tensor) after every call
  dshist  PtychographyDatasetRaster: preprocess() / _set_intensities_com (both paths, masks, fit none / no_shift /
          constant, invalid fit function, mask of the wrong shape) / in-place edits of intensities_4d / intensities_4d= /
          com_measured= / com_fit= (valid and of the wrong shape) in generated orders.  Judges: a FRESH object built
          from a copy of the current patterns running the same call (bit-identical), the exact oracle, and
          Model/OriginState.lean `dsStep`.
"""
from fractions import Fraction

TOL32 = 5e-4


class HarnessError(RuntimeError):
    pass


def _c18():
    from . import c18
    return c18


def rat(x):
    f = Fraction(x)
    return int(f) if f.denominator == 1 else f"{f.numerator}/{f.denominator}"


def frac_of(s):
    if isinstance(s, int):
        return Fraction(s)
    a, b = s.split("/")
    return Fraction(int(a), int(b))


# ---------------------------------------------------------------------------------------
# origin model histories

BAD_KINDS = ["rows_more", "rows_fewer", "rows_two", "odd", "complex", "str"]


def _container(a, kind):
    import torch
    if kind == "tensor":
        return torch.tensor(a)
    if kind == "list":
        return a.tolist()
    return a.copy()


def build_value(d):
    """the Python object a `set` / positions descriptor stands for"""
    import numpy as np
    if d.get("bad") == "str":
        return "abc"
    a = np.asarray(d["vals"], dtype=np.float32).reshape(d["shape"])
    if d.get("bad") == "complex":
        return a.astype(np.complex64)
    return _container(a, d.get("container", "ndarray"))


def gen_origin_values(rng, n, sr, sc, h, w, which, three_d):
    """a VALID origins value: (vals as floats, shape, plane coefficients or None, integer-valued?)"""
    q = 8
    kind = rng.weighted([("per_pattern", 5), ("single", 2), ("plane", 3 if (which == "measured" and min(sr, sc) >= 2) else 0)])
    plane = None
    if kind == "plane":
        pr = [rng.randint(-q, q) / q, rng.randint(-q, q) / q, rng.randint(2 * q, 8 * q) / q]
        pc = [rng.randint(-q, q) / q, rng.randint(-q, q) / q, rng.randint(2 * q, 8 * q) / q]
        vals = [[pr[0] * a + pr[1] * b + pr[2], pc[0] * a + pc[1] * b + pc[2]] for a in range(sr) for b in range(sc)]
        plane = [pr, pc]
    elif which == "fitted":
        half = rng.chance(0.2)
        one = lambda lim: (rng.randint(-2 * lim - 2, 4 * lim) / 2) if half else float(rng.randint(-lim - 1, 2 * lim))  # noqa
        vals = [[one(h), one(w)] for _ in range(1 if kind == "single" else n)]
    else:
        vals = [[rng.randint(0, 8 * h) / q, rng.randint(0, 8 * w) / q] for _ in range(1 if kind == "single" else n)]
    rows = len(vals)
    if rows == n and n > 1 and not three_d and rng.chance(0.4):
        shape = [sr, sc, 2]
    elif rows == 1 and rng.chance(0.5):
        shape = [2]
    else:
        shape = [rows, 2]
    flat = [float(v) for pr_ in vals for v in pr_]
    return {"vals": flat, "shape": shape, "container": rng.choice(["tensor", "ndarray", "list"]), "bad": None, "plane": plane}


def gen_bad_value(rng, n):
    """a value the setters must refuse; None if the class does not exist for this n"""
    kind = rng.choice(BAD_KINDS)
    if kind == "rows_more":
        rows = n + rng.randint(1, 5)
    elif kind == "rows_fewer":
        rows = n - 1
        if rows < 2:
            return None
    elif kind == "rows_two":
        rows = 2
        if n <= 2:
            return None
    else:
        rows = n
    if kind == "odd":
        return {"vals": [float(rng.randint(0, 5)) for _ in range(2 * n + 1)], "shape": [2 * n + 1], "container": rng.choice(["tensor", "ndarray"]), "bad": "odd"}
    vals = [float(rng.randint(0, 6)) for _ in range(2 * rows)]
    return {"vals": vals, "shape": [rows, 2], "container": "ndarray" if kind in ("complex", "str") else rng.choice(["tensor", "ndarray", "list"]),
            "bad": kind if kind in ("complex", "str") else "rows"}


def gen_omhist(rng):
    c18 = _c18()
    sr, sc = c18.pick_scan(rng, 1, 4)
    h, w = rng.randint(2, 6), rng.randint(2, 6)
    if h == w and rng.chance(0.7):
        w += 1
    three_d = rng.chance(0.15)
    n = sr * sc
    shape0 = [sr, sc, h, w]
    data = [rng.randint(1, 60) for _ in range(n * h * w)]
    ops = []
    # what a valid history has stored so far (only used to choose sensible next calls; the judges recompute everything)
    have_meas, have_fit, plane_ok = False, False, False      # have_fit: False / True / "stale" (row count of another tensor)
    for _ in range(rng.randint(4, 9)):
        k = rng.weighted([("calc", 4), ("set_measured", 3), ("set_fitted", 4), ("bad_set", 5), ("fit", 5), ("shift", 6),
                          ("set_tensor", 0 if three_d else 2), ("forward", 0 if three_d else 1), ("bad_call", 2)])
        if k == "calc":
            b = rng.weighted([(None, 2), (1, 1), (rng.randint(1, n), 3), (n + 2, 1)])
            ops.append({"k": "calc", "b": b, "valid": True})
            have_meas, plane_ok = True, False
        elif k in ("set_measured", "set_fitted"):
            which = k[4:]
            v = gen_origin_values(rng, n, sr, sc, h, w, which, three_d)
            ops.append(dict(v, k="set", which=which, valid=True))
            if which == "measured":
                have_meas, plane_ok = True, v["plane"] is not None
            else:
                have_fit = True
        elif k == "bad_set":
            v = gen_bad_value(rng, n)
            if v is None:
                continue
            ops.append(dict(v, k="set", which=rng.choice(["measured", "fitted"]), valid=False))
        elif k == "fit":
            if not have_meas and not rng.chance(0.3):
                continue
            meth = "plane" if (plane_ok and rng.chance(0.6)) else "constant"
            posk = rng.weighted([("inferred", 3), ("explicit", 2), ("bad_rows", 1), ("bad_odd", 1)])
            pos = None
            valid = have_meas
            if posk != "inferred":
                rows = n if posk == "explicit" else n + 1
                pv = [float(v) for a in range(sr) for b in range(sc) for v in (a, b)]
                if posk == "bad_rows":
                    pv = pv + [0.0, 0.0]
                if posk == "bad_odd":
                    pv, shape = pv + [1.0], [2 * n + 1]
                else:
                    shape = [sr, sc, 2] if (posk == "explicit" and not three_d and rng.chance(0.5)) else [rows, 2]
                pos = {"vals": pv, "shape": shape, "container": rng.choice(["tensor", "ndarray"]), "bad": None}
                valid = valid and posk == "explicit"
            elif three_d:
                valid = False                     # positions cannot be inferred from a 3-D dataset
            ops.append({"k": "fit", "method": meth, "pos": pos, "valid": valid})
            have_fit = True if valid else have_fit
        elif k == "shift":
            if have_fit == "stale" or (not have_fit and not rng.chance(0.3)):
                continue
            coord = rng.weighted([([0, 0], 4), ([h // 2, w // 2], 2), ([rng.randint(0, h - 1), rng.randint(0, w - 1)], 1)])
            b = rng.weighted([(None, 2), (1, 1), (rng.randint(1, n), 3), (n + 1, 1)])
            ops.append({"k": "shift", "coord": coord, "b": b, "mode": rng.weighted([("bilinear", 5), ("nearest", 1), ("bicubic", 1)]), "valid": have_fit is True})
        elif k == "set_tensor":
            how = rng.weighted([("same", 3), ("scan", 2), ("det", 1)])
            if how == "scan":
                sr, sc = c18.pick_scan(rng, 1, 4)
            elif how == "det":
                h, w = rng.randint(2, 6), rng.randint(2, 6)
            n2 = sr * sc
            ops.append({"k": "set_tensor", "shape": [sr, sc, h, w], "data": [rng.randint(1, 60) for _ in range(n2 * h * w)], "valid": True})
            if how == "scan":
                plane_ok = False
            if n2 != n:
                # stored origins have the old row count (they stay stored; the generator just does not build a fit / shift on them)
                have_fit = "stale" if have_fit else False
                ops.append({"k": "calc", "b": None, "valid": True})
                have_meas, plane_ok = True, False
            n = n2
        elif k == "forward":
            ops.append({"k": "forward", "b": rng.weighted([(None, 2), (1, 1), (rng.randint(1, n), 2)]), "coord": [0, 0], "valid": True})
            have_meas, have_fit, plane_ok = True, True, False
        else:
            bc = rng.choice(["calc_b0", "fit_method", "shift_b0"])
            if bc == "calc_b0":
                ops.append({"k": "calc", "b": 0, "valid": False})
            elif bc == "fit_method":
                ops.append({"k": "fit", "method": rng.choice(["parabola", "Plane", ""]), "pos": None, "valid": False})
            else:
                ops.append({"k": "shift", "coord": [0, 0], "b": 0, "mode": "bilinear", "valid": False})
    if not any(o["k"] in ("fit", "shift", "calc", "forward") and o["valid"] for o in ops):
        ops.append({"k": "calc", "b": None, "valid": True})
    return {"sr": shape0[0], "sc": shape0[1], "h": shape0[2], "w": shape0[3], "three_d": three_d, "data": data, "ops": ops}


def make_om(arr, three_d):
    import numpy as np  # noqa
    from quantem.diffractive_imaging.origin_models import CenterOfMassOriginModel
    if three_d:
        from quantem.core.datastructures import Dataset3d
        return CenterOfMassOriginModel.from_dataset(Dataset3d.from_array(array=arr.reshape((-1,) + arr.shape[-2:]).copy()), device="cpu")
    from quantem.core.datastructures.dataset4dstem import Dataset4dstem
    return CenterOfMassOriginModel.from_dataset(Dataset4dstem.from_array(array=arr.copy()), device="cpu")


def apply_om(om, op):
    """run one call on the real object; returns None or the exception"""
    import numpy as np
    try:
        k = op["k"]
        if k == "calc":
            om.calculate_origin(max_batch_size=op["b"])
        elif k == "set":
            setattr(om, "origin_" + op["which"], build_value(op))
        elif k == "fit":
            om.fit_origin_background(probe_positions=None if op["pos"] is None else build_value(op["pos"]), fit_method=op["method"])
        elif k == "shift":
            om.shift_origin_to(origin_coordinate=tuple(op["coord"]), max_batch_size=op["b"], mode=op.get("mode", "bilinear"))
        elif k == "set_tensor":
            om.tensor = np.array(op["data"], dtype=np.float32).reshape(op["shape"])
        elif k == "forward":
            om.forward(max_batch_size=op["b"], fit_method="constant", estimate_detector_orientation=False, origin_coordinate=tuple(op["coord"]))
        else:
            raise HarnessError(f"unknown op {k}")
    except HarnessError:
        raise
    except Exception as e:  # noqa
        return e
    return None


def om_state(om):
    def get(t):
        return None if t is None else t.detach().cpu().numpy().copy()
    return {"measured": get(om._origin_measured), "fitted": get(om._origin_fitted), "shifted": get(om._shifted_tensor)}


OUT_OF = {"calc": ["measured"], "fit": ["fitted"], "shift": ["shifted"], "forward": ["measured", "fitted", "shifted"], "set": [], "set_tensor": []}


def om_driver_ops(hist, nrm_for):
    """the history in the driver's protocol; `nrm_for(i)` supplies the plane normals for fit number i"""
    out = []
    n = hist["sr"] * hist["sc"]
    for i, op in enumerate(hist["ops"]):
        k = op["k"]
        if k == "calc":
            out.append({"k": "calc", "b": n if op["b"] is None else op["b"]})
        elif k == "set":
            out.append({"k": "set_" + op["which"], "real": op.get("bad") not in ("complex", "str"), "vals": [rat(v) for v in op["vals"]]})
        elif k == "fit":
            d = {"k": "fit", "method": op["method"], "pos": None if op["pos"] is None else {"real": True, "vals": [rat(v) for v in op["pos"]["vals"]]}}
            nr = nrm_for(i)
            if nr is not None:
                d["nrm"] = nr
            out.append(d)
        elif k == "shift":
            out.append({"k": "shift", "coord": [rat(v) for v in op["coord"]], "b": n if op["b"] is None else op["b"]})
        elif k == "set_tensor":
            sr, sc, h, w = op["shape"]
            n = sr * sc
            out.append({"k": "set_tensor", "scan": [sr, sc], "h": h, "w": w, "data": op["data"]})
        elif k == "forward":
            out.append({"k": "forward", "b": n if op["b"] is None else op["b"], "method": "constant", "coord": [rat(v) for v in op["coord"]]})
    return out


def omhist_case(ctx, drv, hist):
    import numpy as np
    c18 = _c18()
    sr, sc, h, w, three_d = hist["sr"], hist["sc"], hist["h"], hist["w"], hist["three_d"]
    arr = np.array(hist["data"], dtype=np.float32).reshape(sr, sc, h, w)
    case = {"stream": "omhist", "hist": hist}
    om, twin = make_om(arr, three_d), make_om(arr, three_d)
    cur = arr                                     # the patterns the object currently holds
    # shadow: what the valid calls of the history have stored (exact), and where it came from
    sh = {"measured": None, "m_src": None, "plane": None, "fitted": None, "f_src": None, "shift_cmp": False}
    plane_of = {}                                 # op index -> plane coefficients of the measured origins at that fit
    ctx.dist["omhist:dataset=" + ("3-D" if three_d else "4-D")] += 1
    impl_states, labels = [], []
    n_rej = 0
    for i, op in enumerate(hist["ops"]):
        k = op["k"]
        n = cur.shape[0] * cur.shape[1]
        hh, ww = cur.shape[-2:]
        ctx.count()
        ctx.dist[f"omhist:op={k}{'' if op['valid'] else '(rejected)'}"] += 1
        err = apply_om(om, op)
        labels.append(None if err is None else type(err).__name__)
        st = om_state(om)
        impl_states.append(st)
        opcase = dict(case, at=i)
        if not op["valid"]:
            n_rej += 1
            if err is None:
                # whether such a call must be refused is not part of the property: a matter for the model tie below
                ctx.dist["omhist:labelled-invalid-but-accepted"] += 1
                return _om_model_tie(ctx, drv, hist, impl_states, labels, plane_of, case, upto=i)
            ctx.dist[f"omhist:rejected-with={type(err).__name__}"] += 1
            continue
        if err is not None:
            ctx.pred_fail("valid-call-raises-in-history", f"{k} (call {i} of the history) raised {type(err).__name__}: {str(err)[:120]} although every argument is valid"
                          + (f" — {n_rej} earlier call(s) of the history had been rejected" if n_rej else ""), opcase,
                          observed=f"{type(err).__name__}: {err}"[:240], required="a result")
            return
        terr = apply_om(twin, op)
        if terr is not None:
            ctx.pred_fail("valid-call-raises-in-history", f"{k} raised {type(terr).__name__} on an object that has only seen the valid calls of the history", opcase,
                          observed=f"{type(terr).__name__}: {terr}"[:240], required="a result")
            return
        tst = om_state(twin)
        # ---- judge 1: twin (rejected calls removed)
        for name in OUT_OF[k]:
            a, b_ = st[name], tst[name]
            if (a is None) != (b_ is None) or (a is not None and not (a.shape == b_.shape and np.array_equal(a, b_, equal_nan=True))):
                ctx.pred_fail("rejected-call-used-by-later-call", f"{k} (call {i}): {name if name != 'shifted' else 'shifted_tensor'} differs from the same history WITHOUT its {n_rej} rejected call(s): "
                              "a refused assignment / call is being used by a later valid call", opcase,
                              observed={name: None if a is None else np.asarray(a).reshape(-1)[:6].tolist()},
                              required={name: None if b_ is None else np.asarray(b_).reshape(-1)[:6].tolist()})
                return
        # ---- judge 2: the property on the result of this call
        if k == "set_tensor":
            old_scan = cur.shape[:2]
            cur = np.array(op["data"], dtype=np.float32).reshape(op["shape"])
            if cur.shape[:2] != old_scan:
                sh["plane"] = None
            if cur.shape[0] * cur.shape[1] != n:
                sh.update(measured=None, fitted=None, plane=None, shift_cmp=False, m_src=None, f_src=None)
            sh["shift_cmp"] = False
            continue
        if k == "set":
            vals = [Fraction(v) for v in op["vals"]]
            prs = [(vals[2 * j], vals[2 * j + 1]) for j in range(len(vals) // 2)]
            if len(prs) == 1:
                prs = prs * n
            if op["which"] == "measured":
                sh.update(measured=prs, m_src="set", plane=op.get("plane"))
            else:
                sh.update(fitted=prs, f_src="set")
            got = st[op["which"]]
            want = np.array([[float(a), float(b_)] for a, b_ in prs], dtype=np.float32)
            if got is None or got.shape != want.shape or not np.array_equal(got, want):
                ctx.pred_fail("origin-setter-form-scrambles", f"origin_{op['which']} = <{op['container']} of shape {op['shape']}> (call {i}) is not stored pattern by pattern as (row, col)", opcase,
                              observed=None if got is None else got.reshape(-1)[:6].tolist(), required=want.reshape(-1)[:6].tolist())
                return
            continue
        if k in ("calc", "forward"):
            ds_ = {"h": hh, "w": ww, "mask_halves": None, "data": cur.reshape(n, hh, ww).astype(int).tolist()}
            exact = c18.oracle_com(ds_)
            want = [[c18.round_torch(e[0]), c18.round_torch(e[1])] for e in exact]
            got = st["measured"]
            impl = None if got is None else [[float(a), float(b_)] for a, b_ in got.tolist()]
            if impl != want:
                bad = 0 if impl is None or len(impl) != len(want) else next(j for j in range(n) if impl[j] != want[j])
                ctx.pred_fail("com-torch-wrong", f"{'calculate_origin' if k == 'calc' else 'forward'} (call {i} of a history) does not return the intensity-weighted mean (row, column) of every pattern the object holds", opcase,
                              observed={"patterns": None if impl is None else len(impl), "pattern": bad, "origin_measured": None if not impl or bad >= len(impl) else impl[bad]},
                              required={"patterns": n, "(row,col)": want[bad]})
                return
            # growth 6: measured centres of mass that lie EXACTLY on a plane over the scan grid (exact fractions) are judged by
            # the plane clause as well (patterns built with integer centres of mass; never the case for random patterns)
            sh.update(measured=exact, m_src="com", plane=_exact_plane(exact, cur.shape[0], cur.shape[1]))
        if k in ("fit", "forward"):
            meth = "constant" if k == "forward" else op["method"]
            meas = sh["measured"]
            got = st["fitted"]
            if meas is not None and got is not None:
                if meth == "constant":
                    mr, mc = sum(p[0] for p in meas) / len(meas), sum(p[1] for p in meas) / len(meas)
                    want = np.array([[float(mr), float(mc)]] * n)
                    ok_clause = True              # the mean of what was measured: what the constant fit is (exact for constant origins)
                else:
                    want = np.array([[float(a), float(b_)] for a, b_ in meas])
                    ok_clause = sh["plane"] is not None
                    plane_of[i] = sh["plane"]
                if ok_clause:
                    scale = max(1.0, float(np.abs(want).max()))
                    dev = float("inf") if got.shape != want.shape else float(np.abs(got.astype(np.float64) - want).max()) / scale
                    ctx.stat_max(f"omhist_fit_{meth}_rel_dev", dev if np.isfinite(dev) else 1e30)
                    if not dev <= TOL32:
                        ctx.pred_fail(f"fit-torch-{meth}", f"fit_origin_background(fit_method='{meth}') (call {i} of a history) does not return the {'mean' if meth == 'constant' else 'plane'} of the measured origins "
                                      "stored by the last valid call", opcase, observed={"fitted_first": got.reshape(-1)[:4].tolist(), "max_rel_dev": dev}, required={"first": want.reshape(-1)[:4].tolist()})
                        return
                    sh.update(fitted=[(Fraction(float(a)), Fraction(float(b_))) for a, b_ in want.tolist()], f_src="fit")
                else:
                    sh.update(fitted=None, f_src="fit")
            else:
                sh.update(fitted=None, f_src="fit")
        if k in ("shift", "forward"):
            fit_ = sh["fitted"]
            got = st["shifted"]
            exact_int = sh["f_src"] == "set" and fit_ is not None and all(p[0].denominator == 1 and p[1].denominator == 1 for p in fit_)
            sh["shift_cmp"] = sh["f_src"] == "set" and fit_ is not None and k == "shift" and op.get("mode", "bilinear") == "bilinear"
            if exact_int and k == "shift":
                cy, cx = op["coord"]
                c3 = cur.reshape(n, hh, ww)
                want = np.stack([np.roll(c3[j], (-(int(fit_[j][0]) - cy), -(int(fit_[j][1]) - cx)), axis=(0, 1)) for j in range(n)])
                dev = float("inf") if got is None or got.size != want.size else float(np.abs(got.reshape(n, hh, ww) - want).max()) / float(cur.max())
                ctx.stat_max("omhist_shift_vs_roll_rel_dev", dev if np.isfinite(dev) else 1e30)
                ctx.dist[f"omhist:shift-int mode={op.get('mode', 'bilinear')}"] += 1
                if not dev <= 1e-5:
                    j = 0 if not np.isfinite(dev) else int(np.argmax(np.abs(got.reshape(n, hh, ww) - want).reshape(n, -1).max(1)))
                    ctx.pred_fail("shift-int-not-roll", f"shift_origin_to(mode='{op.get('mode', 'bilinear')}') (call {i} of a history) is not the circular roll of every pattern by the integer origin the last valid call stored", opcase,
                                  observed={"pattern": j, "origin": [int(fit_[j][0]), int(fit_[j][1])], "shifted_first_row": None if got is None else got.reshape(n, hh, ww)[j][0].tolist()},
                                  required={"roll_first_row": want[j][0].tolist()})
                    return
    ctx.mark(("omhist", sr, sc, h, w, three_d, tuple((o["k"], o["valid"]) for o in hist["ops"])))
    _om_model_tie(ctx, drv, hist, impl_states, labels, plane_of, case, upto=len(hist["ops"]) - 1)
    ctx.sample({"stream": "omhist", "shape": [sr, sc, h, w], "three_d": three_d,
                "calls": [o["k"] + ("" if o["valid"] else "!") for o in hist["ops"]], "outcomes": labels}, limit=14)


def _om_model_tie(ctx, drv, hist, impl_states, labels, plane_of, case, upto):
    """judge 3: Model/OriginState.lean `omStep` on the same history (exact carrier)"""
    import numpy as np
    sr, sc, h, w = hist["sr"], hist["sc"], hist["h"], hist["w"]

    def nrm_for(i):
        pl = plane_of.get(i)
        if pl is None:
            return None
        return [[rat(pl[0][0]), rat(pl[0][1]), -1], [rat(pl[1][0]), rat(pl[1][1]), -1]]     # exact null vector of an exact plane
    req = {"op": "om_history", "scan": None if hist["three_d"] else [sr, sc], "h": h, "w": w, "data": hist["data"], "ops": om_driver_ops(hist, nrm_for)}
    m = drv.ask(req)
    if "ok" not in m:
        raise HarnessError(f"driver error {m}")
    amax = 60.0
    cmp_shift = False
    for i, (ms, st, lab) in enumerate(zip(m["ok"], impl_states, labels)):
        if i > upto:
            break
        op = hist["ops"][i]
        k = op["k"]
        if (ms["r"] is None) != (lab is None):
            ctx.disagree("omhist-accept", dict(case, at=i), {"call": i, "model": ms["r"] or "returns"}, {"call": i, "impl": lab or "returns"},
                         note=f"{k}: the model {'rejects' if ms['r'] else 'accepts'} the call, the implementation {'raises ' + lab if lab else 'returns'}")
            return
        if k == "fit" and op["method"] == "plane" and plane_of.get(i) is None and ms["r"] is None:
            return                    # a plane fit of origins that are not on a plane needs the eigenvector: not replayed at Rat
        if k == "shift" and ms["r"] is None:
            cmp_shift = op.get("mode", "bilinear") == "bilinear" and _dyadic_set_before(hist, i)
        if k in ("set_tensor", "forward"):
            cmp_shift = False
        for name in ("measured", "fitted", "shifted"):
            a, b_ = ms[name], st[name]
            if (a is None) != (b_ is None):
                ctx.disagree("omhist-state", dict(case, at=i), {"call": i, name: "set" if a is not None else None}, {"call": i, name: "set" if b_ is not None else None},
                             note=f"after {k}: {name} is {'stored' if a is not None else 'None'} in the model and {'stored' if b_ is not None else 'None'} in the implementation")
                return
            if a is None:
                continue
            if name == "shifted":
                if not cmp_shift:
                    continue
                mod = np.array([[float(frac_of(v)) for v in p] for p in a])
                if mod.size != b_.size:
                    ctx.disagree("omhist-state", dict(case, at=i), {"call": i, "shifted_size": int(mod.size)}, {"call": i, "shifted_size": int(b_.size)})
                    return
                d = float(np.abs(mod.reshape(-1) - b_.reshape(-1).astype(np.float64)).max()) / amax
                ctx.stat_max("omhist_shift_model_vs_impl_rel_dev", d)
                if d > 1e-5:
                    ctx.disagree("omhist-state", dict(case, at=i), mod.reshape(-1)[:8].tolist(), b_.reshape(-1)[:8].tolist(), note=f"after {k}: shifted_tensor, omStep at Rat vs implementation")
                    return
            else:
                mod = np.array([[float(frac_of(p[0])), float(frac_of(p[1]))] for p in a])
                if mod.shape != b_.shape:
                    ctx.disagree("omhist-state", dict(case, at=i), {"call": i, name + "_shape": list(mod.shape)}, {"call": i, name + "_shape": list(b_.shape)},
                                 note=f"after {k}: number of stored {name} origins")
                    return
                scale = max(1.0, float(np.abs(mod).max()))
                d = float(np.abs(mod - b_.astype(np.float64)).max()) / scale
                ctx.stat_max(f"omhist_{name}_model_vs_impl_rel_dev", d)
                if d > TOL32:
                    ctx.disagree("omhist-state", dict(case, at=i), mod.reshape(-1)[:8].tolist(), b_.reshape(-1)[:8].tolist(), note=f"after {k}: origin_{name}, omStep at Rat vs implementation")
                    return


def _exact_plane(exact, sr, sc):
    """[[a, b, c], [a', b', c']] if the exact (row, col) origins equal a*x + b*y + c on the sr x sc scan grid, else None"""
    if min(sr, sc) < 2 or len(exact) != sr * sc:
        return None
    out = []
    for comp in (0, 1):
        z = [e[comp] for e in exact]
        c, a, b = z[0], z[sc] - z[0], z[1] - z[0]
        if any(z[x * sc + y] != a * x + b * y + c for x in range(sr) for y in range(sc)):
            return None
        out.append([a, b, c])
    return out


def _dyadic_set_before(hist, i):
    """the fitted origins used by shift number i were stored by the setter (dyadic, exact in float32) and not by a fit"""
    for j in range(i - 1, -1, -1):
        o = hist["ops"][j]
        if o["k"] == "set" and o["which"] == "fitted" and o["valid"]:
            return True
        if (o["k"] in ("fit", "forward") and o["valid"]) or o["k"] == "set_tensor":
            return False
    return False


def forward_partial_case(ctx, drv):
    """literal witness of Props/C18 `forward_not_atomic_counterexample`, replayed on the real code: forward() on a 3-D
    dataset measures, then raises in the fit (no probe positions): the measured origins stay stored"""
    import numpy as np
    arr = np.array([1, 2, 3, 4, 4, 3, 2, 2], dtype=np.float32).reshape(2, 1, 2, 2)
    om = make_om(arr, True)
    err = None
    try:
        om.forward(fit_method="constant", estimate_detector_orientation=False)
    except Exception as e:  # noqa
        err = e
    ctx.count()
    st = om_state(om)
    m = drv.ask({"op": "om_history", "scan": None, "h": 2, "w": 2, "data": [1, 2, 3, 4, 4, 3, 2, 2],
                 "ops": [{"k": "forward", "b": 2, "method": "constant", "coord": [0, 0]}]})
    if "ok" not in m:
        raise HarnessError(f"driver error {m}")
    ms = m["ok"][0]
    c18 = _c18()
    impl = {"raises": err is not None, "measured": None if st["measured"] is None else st["measured"].tolist(), "fitted": st["fitted"] is not None}
    model = {"raises": ms["r"] is not None, "measured": None if ms["measured"] is None else [[c18.round_torch(frac_of(a)), c18.round_torch(frac_of(b))] for a, b in ms["measured"]], "fitted": ms["fitted"] is not None}
    if impl != model:
        ctx.disagree("forward-partial", {"stream": "forward_partial"}, model, impl, note="forward() on a 3-D dataset: measured origins stored, then the fit raises (forward_not_atomic_counterexample)")


# ---------------------------------------------------------------------------------------
# dataset model histories

def gen_dshist(rng):
    c18 = _c18()
    sr, sc = c18.pick_scan(rng, 1, 4)
    h, w = rng.randint(2, 7), rng.randint(2, 7)
    if h == w and rng.chance(0.7):
        w += 1
    n = sr * sc

    def pattern():
        kind = rng.choice(["random", "delta"])
        if kind == "random":
            return [rng.randint(1, 60) for _ in range(h * w)]
        cy, cx = rng.below(h), rng.below(w)
        return [1 + (300 if (r, c) == (cy, cx) else 0) for r in range(h) for c in range(w)]
    data = [v for _ in range(n) for v in pattern()]
    ops = []
    for _ in range(rng.randint(3, 7)):
        k = rng.weighted([("preprocess", 5), ("setcom", 5), ("edit", 5), ("assign", 1), ("set_com", 3), ("bad", 3)])
        fit = rng.weighted([("constant", 3), ("none", 2), ("no_shift", 1)])
        if k == "preprocess":
            ops.append({"k": "preprocess", "fit": fit, "vec": rng.chance(0.5), "valid": True})
        elif k == "setcom":
            mk = rng.weighted([(None, 4), ("binary", 2), ("half", 1)])
            mask = None
            if mk is not None:
                while True:
                    mask = [rng.choice([0, 2, 2] if mk == "binary" else [0, 1, 2, 3]) for _ in range(h * w)]
                    if any(mask):
                        break
            src = rng.weighted([("held", 4), ("ext", 1)])
            op = {"k": "setcom", "src": src, "mask_halves": mask, "fit": fit, "vec": rng.chance(0.5), "valid": True}
            if src == "ext":
                op["data"] = [v for _ in range(n) for v in pattern()]
            ops.append(op)
        elif k == "edit":
            if rng.chance(0.5):
                ops.append({"k": "edit", "how": "one", "a": rng.below(sr), "b": rng.below(sc), "pat": pattern(), "valid": True})
            else:
                ops.append({"k": "edit", "how": "all", "data": [v for _ in range(n) for v in pattern()], "valid": True})
        elif k == "assign":
            ops.append({"k": "assign", "data": [v for _ in range(n) for v in pattern()], "valid": True})
        elif k == "set_com":
            which = rng.choice(["measured", "fit"])
            ops.append({"k": "set_com", "which": which, "shape": [2, sr, sc], "vals": [rng.randint(0, 8 * max(h, w)) / 8 for _ in range(2 * n)], "valid": True})
        else:
            bk = rng.choice(["mask_shape", "fit_name", "com_shape"])
            if bk == "mask_shape":
                ops.append({"k": "setcom", "src": "held", "mask_halves": [2] * ((h + 1) * w), "mask_shape": [h + 1, w], "fit": fit, "vec": rng.chance(0.5), "valid": False})
            elif bk == "fit_name":
                ops.append({"k": "setcom", "src": "held", "mask_halves": None, "fit": rng.choice(["cubic", "Plane", "linear"]), "vec": rng.chance(0.5), "valid": False})
            else:
                shp = rng.choice([[2, sr + 1, sc], [2, sr, sc + 2], [sr, sc]])
                tot = 1
                for v in shp:
                    tot *= v
                ops.append({"k": "set_com", "which": rng.choice(["measured", "fit"]), "shape": shp, "vals": [float(rng.randint(0, 9)) for _ in range(tot)], "valid": False})
    if not any(o["k"] in ("preprocess", "setcom") and o["valid"] for o in ops):
        ops.append({"k": "preprocess", "fit": "constant", "vec": True, "valid": True})
    elif ops[-1]["k"] in ("edit", "set_com", "assign"):
        ops.append({"k": "preprocess", "fit": rng.choice(["constant", "none"]), "vec": rng.chance(0.5), "valid": True})
    return {"sr": sr, "sc": sc, "h": h, "w": w, "data": data, "ops": ops}


PRE_KW = dict(plot_rotation=False, plot_com=False, force_com_rotation=0, force_com_transpose=False)


def apply_ds(pd, op, shape):
    import numpy as np
    sr, sc, h, w = shape
    try:
        k = op["k"]
        if k == "preprocess":
            pd.preprocess(com_fit_function=op["fit"], vectorized=op["vec"], **PRE_KW)
        elif k == "setcom":
            mask = None
            if op["mask_halves"] is not None:
                mask = (np.array(op["mask_halves"], dtype=np.float32) / 2).reshape(op.get("mask_shape", [h, w]))
            src = pd.intensities_4d if op["src"] == "held" else np.array(op["data"], dtype=np.float32).reshape(shape)
            pd._set_intensities_com(src, dp_mask=mask, fit_function=op["fit"], vectorized_calculation=op["vec"])
        elif k == "edit":
            if op["how"] == "one":
                pd.intensities_4d[op["a"], op["b"]] = np.array(op["pat"], dtype=np.float32).reshape(h, w)
            else:
                pd.intensities_4d[...] = np.array(op["data"], dtype=np.float32).reshape(shape)
        elif k == "assign":
            pd.intensities_4d = np.array(op["data"], dtype=np.float32).reshape(shape)
        elif k == "set_com":
            v = np.array(op["vals"], dtype=np.float32).reshape(op["shape"])
            if op["which"] == "measured":
                pd.com_measured = v
            else:
                pd.com_fit = v
        else:
            raise HarnessError(f"unknown op {k}")
    except HarnessError:
        raise
    except Exception as e:  # noqa
        return e
    return None


def ds_state(pd):
    import numpy as np
    cm, cf = getattr(pd, "_com_measured", None), getattr(pd, "_com_fit", None)
    return {"com_measured": None if cm is None else np.array(cm, copy=True), "com_fit": None if cf is None else np.array(cf, copy=True)}


def ds_driver_ops(hist):
    out = []
    sr, sc, h, w = hist["sr"], hist["sc"], hist["h"], hist["w"]
    for op in hist["ops"]:
        k = op["k"]
        if k == "preprocess":
            out.append({"k": "preprocess", "fit": op["fit"], "vec": op["vec"]})
        elif k == "setcom":
            mask = None
            if op["mask_halves"] is not None:
                mask = {"w": op.get("mask_shape", [h, w])[1], "vals": [f"{v}/2" for v in op["mask_halves"]]}
            src = None if op["src"] == "held" else {"h": h, "w": w, "sc": sc, "data": op["data"]}
            out.append({"k": "setcom", "src": src, "mask": mask, "fit": op["fit"], "vec": op["vec"]})
        elif k == "edit":
            if op["how"] == "one":
                out.append({"k": "edit", "a": op["a"], "b": op["b"], "pat": op["pat"]})
            else:
                out.append({"k": "assign", "data": op["data"]})      # every pattern replaced in place: the held content becomes `data`
        elif k == "assign":
            out.append({"k": "assign", "data": op["data"]})
        elif k == "set_com":
            shp = op["shape"]
            if len(shp) == 3 and shp[0] == 2:
                half = len(op["vals"]) // 2
                out.append({"k": "set_com_" + op["which"], "nc": shp[2], "r": [rat(v) for v in op["vals"][:half]], "c": [rat(v) for v in op["vals"][half:]]})
            else:                                                     # not even (2, ., .): one "component" only
                out.append({"k": "set_com_" + op["which"], "nc": shp[-1], "r": [rat(v) for v in op["vals"]], "c": []})
    return out


def dshist_case(ctx, drv, hist):
    import numpy as np
    c18 = _c18()
    sr, sc, h, w = hist["sr"], hist["sc"], hist["h"], hist["w"]
    shape = (sr, sc, h, w)
    n = sr * sc
    arr = np.array(hist["data"], dtype=np.float32).reshape(shape)
    case = {"stream": "dshist", "hist": hist}
    pd = c18.make_raster(arr)
    impl_states, labels, prov = [], [], []
    n_rej = n_edit = 0
    for i, op in enumerate(hist["ops"]):
        k = op["k"]
        ctx.count()
        ctx.dist[f"dshist:op={k}{'' if op['valid'] else '(rejected)'}"] += 1
        before = np.array(pd.intensities_4d, copy=True)
        err = apply_ds(pd, op, shape)
        labels.append(None if err is None else type(err).__name__)
        st = ds_state(pd)
        impl_states.append(st)
        opcase = dict(case, at=i)
        if not op["valid"]:
            n_rej += 1
            prov.append(None)
            if err is None:
                ctx.dist["dshist:labelled-invalid-but-accepted"] += 1
                return _ds_model_tie(ctx, drv, hist, impl_states, labels, prov, case, upto=i)
            continue
        if err is not None:
            ctx.pred_fail("valid-call-raises-in-history", f"{k} (call {i} of a dataset-model history) raised {type(err).__name__}: {str(err)[:120]} although every argument is valid", opcase,
                          observed=f"{type(err).__name__}: {err}"[:240], required="a result")
            return
        if k in ("edit", "assign"):
            n_edit += 1
            prov.append(None)
            continue
        if k == "set_com":
            prov.append("set")
            continue
        # ---- a centre-of-mass computation: on which patterns?
        src = before if (k == "preprocess" or op["src"] == "held") else np.array(op["data"], dtype=np.float32).reshape(shape)
        mask_h = op.get("mask_halves") if k == "setcom" else None
        ds_ = {"h": h, "w": w, "data": src.reshape(n, h, w).astype(int).tolist(),
               "mask_halves": None if mask_h is None else np.array(mask_h).reshape(h, w).tolist()}
        exact = c18.oracle_com(ds_)
        want = np.array([[c18.round_numpy(e[0]) for e in exact], [c18.round_numpy(e[1]) for e in exact]], dtype=np.float32).reshape(2, sr, sc)
        got = st["com_measured"]
        prov.append("com")
        entry = "preprocess()" if k == "preprocess" else f"_set_intensities_com(vectorized_calculation={op['vec']})"
        hist_note = f" — call {i} of a history with {n_edit} in-place edit(s) / re-assignment(s) of the patterns and {n_rej} rejected call(s) before it"
        if got is None or got.shape != want.shape or not np.array_equal(got, want):
            j = 0 if got is None or got.shape != want.shape else int(np.argmax(np.abs(got - want).reshape(2, -1).max(0)))
            ctx.pred_fail("com-dataset-model-stale-in-history", f"{entry}: com_measured is not the intensity-weighted mean (row, column) of the patterns the object holds NOW" + hist_note, opcase,
                          observed={"pattern": j, "com_measured(row,col)": None if got is None else [float(got[0].ravel()[j]), float(got[1].ravel()[j])]},
                          required={"(row,col)": [float(want[0].ravel()[j]), float(want[1].ravel()[j])], "exact": [str(exact[j][0]), str(exact[j][1])]})
            return
        gf = st["com_fit"]
        fit = op["fit"]
        if fit == "none":
            wantf, tolf = want.astype(np.float64), 0.0
        elif fit == "no_shift":
            wantf, tolf = None, 0.0            # not a fit of the measured origins: outside the property (model tie + fresh object only)
        else:
            wantf = np.stack([np.full((sr, sc), float(sum(e[0] for e in exact) / n)), np.full((sr, sc), float(sum(e[1] for e in exact) / n))])
            tolf = TOL32
        devf = 0.0 if wantf is None else float("inf") if gf is None or gf.shape != wantf.shape else float(np.abs(gf.astype(np.float64) - wantf).max()) / max(1.0, float(np.abs(wantf).max()))
        if not devf <= tolf:
            ctx.pred_fail("com-fit-dataset-model-stale-in-history", f"{entry}, fit '{fit}': com_fit does not belong to the centre of mass of the patterns the object holds NOW" + hist_note, opcase,
                          observed={"com_fit_first": None if gf is None else [float(gf[0].ravel()[0]), float(gf[1].ravel()[0])], "max_rel_dev": devf},
                          required={"com_fit_first": [float(wantf[0].ravel()[0]), float(wantf[1].ravel()[0])]})
            return
        # ---- fresh object on a copy of the current patterns, same call: bit-identical
        fresh = c18.make_raster(before)
        ferr = apply_ds(fresh, op, shape)
        if ferr is not None:
            ctx.pred_fail("valid-call-raises-in-history", f"{k} raised {type(ferr).__name__} on a fresh object", opcase, observed=f"{type(ferr).__name__}: {ferr}"[:240], required="a result")
            return
        fst = ds_state(fresh)
        for name in ("com_measured", "com_fit"):
            if not (fst[name] is not None and st[name] is not None and np.array_equal(fst[name], st[name], equal_nan=True)):
                ctx.pred_fail("history-differs-from-fresh-object", f"{entry}: {name} after a history differs from the same call on a fresh object built from the current patterns" + hist_note, opcase,
                              observed=None if st[name] is None else st[name].reshape(-1)[:6].tolist(), required=None if fst[name] is None else fst[name].reshape(-1)[:6].tolist())
                return
        # the estimate must not alter the patterns in a way a second estimate can see
        if not np.array_equal(np.asarray(pd.intensities_4d), before):
            apply_ds(pd, op, shape)
            again = ds_state(pd)["com_measured"]
            if again is None or again.shape != want.shape or not np.array_equal(again, want):
                ctx.pred_fail("com-dataset-model-mutates-input", f"{entry} changes the patterns held by the object: running the same call again no longer returns the (masked) intensity-weighted mean of the patterns as they were" + hist_note, opcase,
                              observed=None if again is None else again.reshape(-1)[:4].tolist(), required=want.reshape(-1)[:4].tolist())
            return
    ctx.mark(("dshist", sr, sc, h, w, tuple((o["k"], o["valid"], o.get("fit"), o.get("vec")) for o in hist["ops"])))
    _ds_model_tie(ctx, drv, hist, impl_states, labels, prov, case, upto=len(hist["ops"]) - 1)
    ctx.sample({"stream": "dshist", "shape": list(shape), "calls": [o["k"] + ("" if o["valid"] else "!") for o in hist["ops"]], "outcomes": labels}, limit=15)


def _ds_model_tie(ctx, drv, hist, impl_states, labels, prov, case, upto):
    import numpy as np
    c18 = _c18()
    sr, sc, h, w = hist["sr"], hist["sc"], hist["h"], hist["w"]
    m = drv.ask({"op": "ds_history", "sr": sr, "sc": sc, "h": h, "w": w, "data": hist["data"], "ops": ds_driver_ops(hist)})
    if "ok" not in m:
        raise HarnessError(f"driver error {m}")
    src_m = None          # where the stored com_measured came from: "com" (exact fraction, rounded like numpy) / "set"
    for i, (ms, st, lab) in enumerate(zip(m["ok"], impl_states, labels)):
        if i > upto:
            break
        op = hist["ops"][i]
        if (ms["r"] is None) != (lab is None):
            ctx.disagree("dshist-accept", dict(case, at=i), {"call": i, "model": ms["r"] or "returns"}, {"call": i, "impl": lab or "returns"},
                         note=f"{op['k']}: the model {'rejects' if ms['r'] else 'accepts'} the call, the implementation {'raises ' + lab if lab else 'returns'}")
            return
        if ms["r"] is None and op["k"] in ("preprocess", "setcom"):
            src_m = "com"
        elif ms["r"] is None and op["k"] == "set_com" and op["which"] == "measured":
            src_m = "set"
        for name in ("com_measured", "com_fit"):
            a, b_ = ms[name], st[name]
            if (a is None) != (b_ is None):
                ctx.disagree("dshist-state", dict(case, at=i), {"call": i, name: a is not None}, {"call": i, name: b_ is not None}, note=f"after {op['k']}: {name} stored / not stored")
                return
            if a is None:
                continue
            fr = [[[frac_of(v) for v in row] for row in comp] for comp in a]
            if name == "com_measured" and src_m == "com":
                mod = np.array([[[c18.round_numpy(v) for v in row] for row in comp] for comp in fr], dtype=np.float32)
                same = mod.shape == b_.shape and np.array_equal(mod, b_)
            else:
                mod = np.array([[[float(v) for v in row] for row in comp] for comp in fr], dtype=np.float64)
                same = mod.shape == b_.shape and float(np.abs(mod - b_.astype(np.float64)).max()) <= TOL32 * max(1.0, float(np.abs(mod).max()))
            if not same:
                ctx.disagree("dshist-state", dict(case, at=i), mod.reshape(-1)[:8].tolist(), b_.reshape(-1)[:8].tolist(), note=f"after {op['k']}: {name}, dsStep at Rat vs implementation")
                return
