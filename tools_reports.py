#!/usr/bin/env python3
"""Extract the final report of every finished builder sub-session into /verif/reports/<name>.md"""
import json, glob, os, re
TASKS = '/tmp/claude-0/-verif/efab8dc7-9502-4121-b2b9-c941fe655e2b/tasks'
os.makedirs('/verif/reports', exist_ok=True)
for f in glob.glob(TASKS + '/a*.output'):
    first_user = None; last_text = None
    for line in open(f):
        try: o = json.loads(line)
        except Exception: continue
        if not isinstance(o, dict): continue
        msg = o.get('message') or {}
        if not isinstance(msg, dict): continue
        role = msg.get('role'); content = msg.get('content')
        if role == 'user' and first_user is None:
            first_user = content if isinstance(content, str) else ' '.join(c.get('text','') for c in content if isinstance(c, dict) and c.get('type')=='text')
        if role == 'assistant' and isinstance(content, list):
            t = '\n'.join(c.get('text','') for c in content if isinstance(c, dict) and c.get('type')=='text').strip()
            if t: last_text = t
    if not first_user or not last_text or len(last_text) < 1500:
        continue
    if 'builder_common.md' in first_user:
        m = re.search(r'YOUR PROPERT(?:Y|IES):\s*(C\d\d)(?:[^C]{0,200}?\b(C\d\d)\b)?', first_user)
        ids = re.findall(r'\bC\d\d\b', first_user.split('YOUR PROPERT')[1][:400])
        name = 'build-' + '-'.join(dict.fromkeys(ids[:1] + [i for i in ids[1:3] if i in first_user.split('You own')[0][:600]]))
        name = 'build-' + ids[0]
    else:
        m = re.search(r'prompt-(C\d\d)\.md', first_user)
        if not m: continue
        name = 'seed-' + m.group(1)
    open(f'/verif/reports/{name}.md', 'w').write(last_text + '\n')
    print(name, len(last_text))
