#!/usr/bin/env python3
"""Extract the reports of every builder / seeding sub-session into /verif/reports/<name>.md.
A session that was resumed several times has several reports (one per round); all are kept, in order."""
import json, glob, os, re
TASKS = '/tmp/claude-0/-verif/efab8dc7-9502-4121-b2b9-c941fe655e2b/tasks'
os.makedirs('/verif/reports', exist_ok=True)


def text_of(content):
    if isinstance(content, str):
        return content
    if isinstance(content, list):
        return '\n'.join(c.get('text', '') for c in content if isinstance(c, dict) and c.get('type') == 'text').strip()
    return ''


def is_prompt(content):
    """a user message that is a prompt (first task or a follow-up), not a tool result"""
    if isinstance(content, str):
        return bool(content.strip())
    if isinstance(content, list):
        return any(isinstance(c, dict) and c.get('type') == 'text' and c.get('text', '').strip() for c in content) and \
            not any(isinstance(c, dict) and c.get('type') == 'tool_result' for c in content)
    return False


for f in glob.glob(TASKS + '/a*.output'):
    first_user = None
    last_text = None
    rounds = []
    for line in open(f):
        try:
            o = json.loads(line)
        except Exception:
            continue
        if not isinstance(o, dict):
            continue
        msg = o.get('message') or {}
        if not isinstance(msg, dict):
            continue
        role, content = msg.get('role'), msg.get('content')
        if role == 'user' and is_prompt(content):
            if first_user is None:
                first_user = text_of(content)
            elif last_text:
                rounds.append(last_text)
            last_text = None
        if role == 'assistant':
            t = text_of(content)
            if t:
                last_text = t
    if last_text:
        rounds.append(last_text)
    rounds = [r for r in rounds if len(r) >= 600]
    if not first_user or not rounds:
        continue
    if 'builder_common.md' in first_user:
        ids = re.findall(r'\bC\d\d\b', first_user.split('YOUR PROPERT')[1][:400])
        name = 'build-' + ids[0]
    else:
        m = re.search(r'prompt(\d?)-(C\d\d)\.md', first_user)
        if not m:
            continue
        name = 'seed' + m.group(1) + '-' + m.group(2)
    body = '\n\n'.join((f'## Report of round {i + 1}\n\n' if len(rounds) > 1 else '') + r for i, r in enumerate(rounds))
    open(f'/verif/reports/{name}.md', 'w').write(body + '\n')
    print(name, len(rounds), len(body))
