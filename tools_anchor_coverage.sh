#!/bin/bash
# tools_anchor_coverage.sh <id> : run the quick correspondence of one property (no Lean build) under coverage.py and list,
# per function of the property's anchored source files, the lines the check never executes.  This measures how much of the
# anchored code the tie (correspondence + predicates) actually reaches; output: reports/anchor-coverage-<id>.txt
set -u
id=$1
HERE="$(cd "$(dirname "$0")" && pwd)"; cd "$HERE"
SCRATCH="$(mktemp -d -t qvcov.XXXXXX)"; trap 'rm -rf "$SCRATCH"' EXIT
mkdir -p "$SCRATCH/qconfig"
export QUANTEM_CONFIG="$SCRATCH/qconfig" QVERIF_SCRATCH="$SCRATCH" MPLBACKEND=Agg OMP_NUM_THREADS=2 MKL_NUM_THREADS=2
export QVERIF_REPO="${QVERIF_REPO:-/repo}" QVERIF_NO_EVIDENCE=1
export PYTHONPATH="$HERE/harness:$QVERIF_REPO/src" PYTHONDONTWRITEBYTECODE=1 PYTHONWARNINGS=ignore
cp evidence/$id.json "$SCRATCH/ev.json" 2>/dev/null
/venv/bin/python -m coverage run --data-file="$SCRATCH/cov" --source="$QVERIF_REPO/src/quantem" -m qv.runner $id --no-lean > "$SCRATCH/run.log" 2>&1
rc=$?
# the dev run must not replace the committed evidence
[ -f "$SCRATCH/ev.json" ] && cp "$SCRATCH/ev.json" evidence/$id.json
/venv/bin/python -m coverage json --data-file="$SCRATCH/cov" -o "$SCRATCH/cov.json" -q >/dev/null 2>&1
/venv/bin/python - "$id" "$SCRATCH/cov.json" "$rc" <<'PY' > reports/anchor-coverage-$id.txt
import ast, json, os, sys
pid, covf, rc = sys.argv[1:4]
repo = os.environ["QVERIF_REPO"]
prop = [json.loads(l) for l in open("/verif/properties.jsonl") if json.loads(l)["id"] == pid][0]
files = prop["anchors"]["files"]
cov = json.load(open(covf))["files"]
print(f"# anchored-code coverage of `./check {pid} --no-lean` (quick tier, seed {os.environ.get('VERIF_SEED','0')}), runner exit {rc}")
print("# lines of the anchored files never executed by the correspondence / predicate streams, grouped by function")
for f in files:
    path = os.path.join(repo, f)
    key = [k for k in cov if k.endswith(f)]
    if not key:
        print(f"\n## {f}: never imported by the check"); continue
    c = cov[key[0]]; miss = set(c["missing_lines"]); ex = set(c["executed_lines"])
    print(f"\n## {f}: {c['summary']['percent_covered']:.0f}% of {c['summary']['num_statements']} statements executed")
    tree = ast.parse(open(path).read())
    rows = []
    def visit(node, prefix):
        for ch in ast.iter_child_nodes(node):
            if isinstance(ch, (ast.FunctionDef, ast.AsyncFunctionDef)):
                lines = set(range(ch.lineno, ch.end_lineno + 1))
                m = sorted(lines & miss); e = lines & ex
                body_e = e - {ch.lineno}
                if m:
                    rows.append((prefix + ch.name, ch.lineno, len(m), len(m) + len(e), bool(body_e), m))
                visit(ch, prefix + ch.name + ".")
            elif isinstance(ch, ast.ClassDef):
                visit(ch, prefix + ch.name + ".")
    visit(tree, "")
    def ranges(m):
        out = []; s = p = None
        for x in m:
            if s is None: s = p = x
            elif x == p + 1: p = x
            else: out.append((s, p)); s = p = x
        if s is not None: out.append((s, p))
        return ",".join(f"{a}" if a == b else f"{a}-{b}" for a, b in out)
    for name, ln, nm, nt, entered, m in sorted(rows, key=lambda r: (r[4], -r[2])):
        print(f"  {'PARTIAL ' if entered else 'NEVER   '} {name} (line {ln}): {nm}/{nt} lines not executed: {ranges(m)[:160]}")
PY
echo "wrote reports/anchor-coverage-$id.txt (runner exit $rc)"
