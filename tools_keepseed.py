#!/usr/bin/env python3
"""tools_keepseed.py <id> <n> <name> : copy a confirmed seeded change into /verif/seeded/<name>/ with the run record"""
import json, os, re, shutil, sys
pid, n, name = sys.argv[1:4]
src = sys.argv[4] if len(sys.argv) > 4 else f"/tmp/seed/out-{pid}/{n}"
dst = f"/verif/seeded/{name}"
os.makedirs(dst, exist_ok=True)
for f in ("patch.diff", "demo.py"):
    shutil.copy(os.path.join(src, f), os.path.join(dst, f))
meta = json.load(open(os.path.join(src, "meta.json")))
log = open(f"/tmp/t/seed-{name}.log").read()
m = re.search(r"RESULT [^:]+: (.*)", log)
res = m.group(1) if m else ""
chk = open(f"/tmp/t/seed-{name}.check.log").read()
meta_out = {
    "property": pid,
    "breaks": meta.get("what_it_breaks"),
    "needs_to_manifest": meta.get("needs_to_manifest"),
    "title": meta.get("title"),
    "files": meta.get("files"),
    "author": "independent sub-agent given only the property text and its own worktree",
    "confirmed_by_me": {
        "command": f"./tools_seed.sh {pid} {src} {name}  (fresh worktree of /repo HEAD; demo.py on clean and patched tree; full pytest suite on patched tree; QVERIF_REPO=<patched> ./check {pid} --tier quick)",
        "result": res,
        "demo_clean_exit": int(re.search(r"demo_clean=(\d+)", res).group(1)) if res else None,
        "demo_patched_exit": int(re.search(r"demo_patched=(\d+)", res).group(1)) if res else None,
        "suite_on_patched": re.search(r"suite='([^']*)'", res).group(1) if res else None,
        "check_exit": int(re.search(r"check_exit=(\d+)", res).group(1)) if res else None,
    },
    "caught_by": [l[:300] for l in chk.splitlines() if l.startswith(("VIOLATION", "PREDICATE-FAILURE", "DISAGREEMENT", "undischarged"))][:6],
}
json.dump(meta_out, open(os.path.join(dst, "meta.json"), "w"), indent=1)
print(name, meta_out["confirmed_by_me"]["check_exit"], (meta_out["caught_by"] or ["NOT CAUGHT"])[0][:120])
