#!/usr/bin/env python3
"""tools_benignprompt.py <id> : print the prompt handed to an independent sub-agent that writes HARMLESS
rewrites (semantics-preserving changes under which the property still holds).  The checks must stay
silent on them.  The prompt contains only the property text and the path of a scratch worktree."""
import json, sys


def main():
    pid = sys.argv[1]
    prop = None
    for line in open("/verif/properties.jsonl"):
        p = json.loads(line)
        if p["id"] == pid:
            prop = p
    wt = f"/tmp/seed/wtB-{pid}"
    out = f"/tmp/seed/outB-{pid}"
    text = f"""You are helping to evaluate a verification tool. The tool must NOT raise an alarm on code changes that keep a stated property true. Your job is to write realistic HARMLESS rewrites of an open-source Python package: changes a maintainer could commit that alter the source text of the code the property is about, but not its observable behaviour. Work autonomously; do not ask questions.

THE PACKAGE: electronmicroscopy/quantem (quantitative electron microscopy toolkit). You have your OWN scratch git worktree of it at {wt} (already created, clean). Work ONLY inside {wt} and write your results ONLY under {out}/ . Never read, list or touch /verif or /repo (off limits: what you write must be independent of the tool being evaluated). Run Python as `cd {wt} && PYTHONPATH={wt}/src /venv/bin/python ...` (check `quantem.__file__` once). No network. Keep torch threads low (`OMP_NUM_THREADS=2`).

THE PROPERTY the package satisfies (this text is all you are given about it):

id: {prop['id']}
title: {prop['title']}
statement: {prop['statement']}
quantified over: {prop['quantifier']['text']}
anchored in: {json.dumps(prop['anchors'], indent=1)}

YOUR TASK: produce THREE independent patches (each against the CLEAN worktree, touching only files under src/, each modifying the ANCHORED code paths of this property — the functions / methods named above or helpers they call), each of which is BEHAVIOUR-PRESERVING at the public API: every public function, method, attribute and documented option returns the same values (bit-identical for integer / exact results; for floating-point results identical or within a few units in the last place of the working precision), raises the same exception types on the same inputs, has the same side effects on disk and on its arguments, and keeps the same public names, signatures and defaults. One patch per flavour:

 1. INTERNAL RESTRUCTURING: rename local variables and PRIVATE helpers (leading underscore, not used outside the module — check with grep), split a long function into private helpers or inline a private helper, turn a loop into a comprehension / vectorised expression or back, reorder independent statements, replace `if/else` chains by early returns, introduce temporaries. At least ~25 changed lines inside the anchored functions.
 2. EQUIVALENT EXPRESSIONS / LIBRARY CALLS: replace expressions by mathematically and numerically equivalent ones (e.g. `np.asarray(x).sum()` vs `np.sum(x)`, `x[::1]` vs `x`, `a * (1 / 1)`; `torch.cat` vs `torch.stack` + reshape, `len(a) == 0` vs `not len(a)`, `range`-loop vs `enumerate`, dict comprehension vs loop, f-strings, `isinstance` tuple order, `math.ceil(a / b)` vs `-(-a // b)` for positive ints, algebraically re-associated float formulas ONLY where the result stays within a few ulp). Results must stay equal as defined above — run the comparison yourself.
 3. NON-FUNCTIONAL CHANGES AROUND THE LOGIC: reworded error / warning messages (same exception type), added / changed docstrings, comments, type hints, logging at debug level, an added correct fast path or a correct cache keyed by ALL inputs it depends on, defensive copies that do not change results, added validation that only rejects inputs which already raised the same exception type before.

For each patch n in 1,2,3 write into {out}/n/ :
 * patch.diff — `git diff` against the clean worktree (must apply with `git apply`; only files under src/);
 * demo.py — a stand-alone program (run as `cd <tree> && PYTHONPATH=<tree>/src /venv/bin/python demo.py`) that exercises the changed code through the public API on a varied set of inputs (including edge cases: small / odd sizes, error branches, unusual options) and prints a deterministic digest (e.g. a sha256 over rounded results / exception type names). It must EXIT 0 and print THE SAME digest on the clean and on the patched tree — compare the two outputs yourself; < 2 minutes, no network / GPU;
 * meta.json — {{"title": one line, "files": [...], "flavour": 1|2|3, "what_changed": summary, "why_behaviour_preserving": argument, "float_differences": "none" | "<= N ulp in <which outputs>"}}.

PROCEDURE for each patch: read the anchored code carefully; edit in {wt}; run demo.py on the patched tree and save its output; run the full suite (`cd {wt} && PYTHONPATH={wt}/src /venv/bin/python -m pytest -q -p no:cacheprovider tests --timeout=900` -> must stay "176 passed, 2 skipped"); `git -C {wt} diff > {out}/n/patch.diff`; `git -C {wt} checkout -- .`; run demo.py on the clean tree and confirm the identical digest. Never use `git stash`. At the end `git -C {wt} status --short` must be empty and each patch must pass `git -C {wt} apply --check`.

Be honest: if you discover that a rewrite you made changes behaviour for some input, fix the rewrite (do not ship it). The value of your work is that the three patches are REALLY behaviour-preserving while touching as much of the anchored logic as a real refactoring would.

FINAL MESSAGE: for each patch: title, files / functions edited, number of changed lines, and confirmation of the runs (same digest on both trees, suite on patched tree = 176 passed)."""
    print(text)


if __name__ == "__main__":
    main()
